(* Assembler-level well-formedness of an AArch64 instruction list (C14): every label defined exactly
   once, every referenced label defined, the entry symbol defined, no label that shadows a runtime
   symbol called by BL, and every operand within the encodable range of the instruction form it is
   printed in (Arm ARM, A64 base instructions):
     ADD/SUB/CMP (immediate)   unsigned 12 bits, optionally shifted left by 12; registers Xn or SP
     MOVZ/MOVN/MOVK            16-bit chunk, shift 0/16/32/48
     LDR/STR (unsigned offset) 0..32760, multiple of 8; base Xn or SP; transfer register Xn or XZR
     LDP/STP (pre/post index)  -512..504, multiple of 8; distinct transfer registers for LDP
     register forms            Xn or XZR (the printer has no extended-register form)
     B.cond, ADR               target within +-1 MiB;  B, BL: +-128 MiB
   General-purpose register X(n) is printed as X{n} for n < 18 and X{n+1} otherwise, so n <= 29.
   Every instruction occupies 4 bytes, so branch distances are exact.  Executable. *)
From Coq Require Import List ZArith NArith String Ascii Bool.
From SCC Require Import Base.Sexp Model.A64.
Import ListNotations.
Local Open Scope string_scope.
Local Open Scope list_scope.

Definition gp (r : areg) : bool := match r with X n => N.leb n 29 | _ => false end.
Definition gp_or_zr (r : areg) : bool := match r with X n => N.leb n 29 | XZR => true | SP => false end.
Definition gp_or_sp (r : areg) : bool := match r with X n => N.leb n 29 | SP => true | XZR => false end.
Definition areg_same (a b : areg) : bool :=
  match a, b with X x, X y => N.eqb x y | SP, SP => true | XZR, XZR => true | _, _ => false end.

Definition imm12 (i : Z) : bool :=
  ((0 <=? i) && (i <=? 4095) || (0 <=? i) && (Z.eqb (i mod 4096) 0) && (i / 4096 <=? 4095))%Z.
Definition imm16 (i : Z) : bool := ((0 <=? i) && (i <=? 65535))%Z.
Definition shift16 (s : Z) : bool := (Z.eqb s 0 || Z.eqb s 16 || Z.eqb s 32 || Z.eqb s 48)%Z.
Definition uoff8 (i : Z) : bool := ((0 <=? i) && (i <=? 32760) && Z.eqb (i mod 8) 0)%Z.
Definition soff7 (i : Z) : bool := ((-512 <=? i) && (i <=? 504) && Z.eqb (i mod 8) 0)%Z.

Definition instr_wf (c : acode) : bool :=
  match c with
  | ADD d a b | SUB d a b | MUL d a b | SDIV d a b => gp_or_zr d && gp_or_zr a && gp_or_zr b
  | MSUB d a b c => gp_or_zr d && gp_or_zr a && gp_or_zr b && gp_or_zr c
  | ADDI d a i | SUBI d a i => gp_or_sp d && gp_or_sp a && imm12 i
  | CMPI a i => gp_or_sp a && imm12 i
  | CMPR a b => gp_or_zr a && gp_or_zr b
  | MOVR d s => (gp_or_zr d && gp_or_zr s) || (gp_or_sp d && gp_or_sp s)
  | MOVZ d i s | MOVN d i s | MOVK d i s => gp_or_zr d && imm16 i && shift16 s
  | LDR d b i | STR d b i => gp_or_zr d && gp_or_sp b && uoff8 i
  | LDP_POST_INDEX d1 d2 b i => gp_or_zr d1 && gp_or_zr d2 && negb (areg_same d1 d2) && gp_or_sp b && soff7 i
                                && negb (areg_same d1 b) && negb (areg_same d2 b)
  | STP_PRE_INDEX d1 d2 b i => gp_or_zr d1 && gp_or_zr d2 && gp_or_sp b && soff7 i
                               && negb (areg_same d1 b) && negb (areg_same d2 b)
  | BR r => gp r
  | ADR r _ => gp r
  | _ => true
  end.

Definition referenced (c : acode) : list string :=
  match c with
  | B l | ADR _ l | BEQ l | BNE l | BLT l | BLE l | BGT l | BGE l => [l]
  | _ => []
  end.
Definition all_defs (c : acode) : list string := match c with LAB l => [l] | _ => [] end.
Definition is_hash_label (l : string) : bool := match l with String "#"%char _ => true | _ => false end.
Definition defined_labels (cs : list acode) : list string :=
  flat_map (fun c => match c with LAB l => if is_hash_label l then [] else [l] | _ => [] end) cs.
Definition calls (cs : list acode) : list string := flat_map (fun c => match c with BL l => [l] | _ => [] end) cs.
Definition globals (cs : list acode) : list string := flat_map (fun c => match c with GLOBAL l => [l] | _ => [] end) cs.
Definition mem_str (x : string) (l : list string) : bool := existsb (String.eqb x) l.
Fixpoint first_dup (l : list string) : option string :=
  match l with [] => None | x :: r => if mem_str x r then Some x else first_dup r end.

(* byte addresses (every instruction 4 bytes, labels and directives 0) *)
Definition isz (c : acode) : Z := match c with LAB _ | TEXT | GLOBAL _ => 0 | _ => 4 end%Z.
Fixpoint label_addrs (cs : list acode) (a : Z) : list (string * Z) :=
  match cs with
  | [] => []
  | LAB l :: r => (l, a) :: label_addrs r a
  | c :: r => label_addrs r (a + isz c)
  end.
Fixpoint lookup (l : string) (m : list (string * Z)) : option Z :=
  match m with [] => None | (k, v) :: r => if String.eqb l k then Some v else lookup l r end.
Definition in_range (lo hi d : Z) : bool := ((lo <=? d) && (d <=? hi))%Z.
(* first branch whose target is out of range of its instruction form *)
Fixpoint far_branch (m : list (string * Z)) (cs : list acode) (a : Z) : option string :=
  match cs with
  | [] => None
  | c :: r =>
      let far (l : string) (lo hi : Z) :=
        match lookup l m with
        | Some t => if in_range lo hi (t - a) then far_branch m r (a + isz c) else Some l
        | None => far_branch m r (a + isz c)
        end in
      match c with
      | BEQ l | BNE l | BLT l | BLE l | BGT l | BGE l | ADR _ l => far l (-1048576) 1048572
      | B l => far l (-134217728) 134217724
      | _ => far_branch m r (a + isz c)
      end
  end%Z.
Definition code_bytes (cs : list acode) : Z := fold_left (fun a c => a + isz c)%Z cs 0%Z.
Definition branches_in_range (cs : list acode) : option string :=
  if (code_bytes cs <? 1048572)%Z then None      (* everything is within reach of everything *)
  else far_branch (label_addrs cs 0) cs 0.

Definition asm_wf (cs : list acode) : option string :=   (* None = well-formed; Some why otherwise *)
  let labs := defined_labels cs in
  match first_dup labs with
  | Some l => Some ("label defined twice: " ++ l)%string
  | None =>
      match find (fun l => negb (mem_str l labs)) (flat_map referenced cs) with
      | Some l => Some ("undefined label: " ++ l)%string
      | None =>
          match find (fun l => negb (mem_str l labs)) (globals cs) with
          | Some l => Some ("global symbol not defined: " ++ l)%string
          | None =>
              match find (fun l => mem_str l labs) (calls cs) with
              | Some l => Some ("label collides with a runtime symbol: " ++ l)%string
              | None =>
                  match find (fun c => negb (instr_wf c)) cs with
                  | Some c => Some "operand not encodable in its instruction form"
                  | None =>
                      match branches_in_range cs with
                      | Some l => Some ("branch target out of range: " ++ l)%string
                      | None => None
                      end
                  end
              end
          end
      end
  end.
