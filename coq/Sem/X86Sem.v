(* Executable semantics of the x86-64 instruction subset emitted by axcut2x86_64 (Model/X86.xcode),
   with undefined-value tracking and an external-call model for the print runtime.

   DECISIONS
   values     a register or a memory word holds `Some z` (a signed 64-bit integer, which may be an
              address) or `None` (undefined).  Moving, pushing and popping undefined values is
              allowed; using one as an operand of arithmetic, comparison, address computation,
              jump target, print argument or result is a fault (OStuck "undef-…").
   memory     8-byte words at 8-aligned addresses in two regions: the heap [HEAP_BASE, +HEAP_SIZE),
              zero-filled initially (calloc), and the stack [STACK_LIMIT, STACK_TOP), undefined
              initially.  Any access outside the two regions, or unaligned, is a fault.
   code       every instruction has a byte address: `jmp near` occupies 5 bytes (this is what
              jump_length assumes), every other instruction a nominal 16, directives/labels 0.
              An indirect jump must hit an instruction start, otherwise fault "bad-jump-target".
   flags      set by CMP* only (operands remembered); every arithmetic instruction invalidates
              them; a conditional jump on invalid flags is a fault.
   calls      `call print_i64|println_i64`: rsp must be 0 mod 16 (System V), rdi must be defined;
              the value is appended to the trace; then every caller-saved register (rax rcx rdx
              rsi rdi r8-r11), the flags and every stack word below rsp become undefined.
   entry      asm_main is entered like a C function: rsp = STACK_TOP - 8 (so rsp = 8 mod 16),
              [rsp] = a return marker, rdi = heap base, integer arguments in rsi rdx rcx r8 r9,
              callee-saved registers rbx rbp r12-r15 hold marker values, everything else undefined.
              The run ends at a `ret` that pops the return marker; it is OExit rax only if rsp and
              all callee-saved registers have their entry values (else fault "callee-saved…").
   division   idiv requires rdx = sign extension of rax (as cqo leaves it); divisor 0 is
              OUndef "div0", min_int / -1 is OUndef "overflow" (the source semantics' exclusions).
   immediates mov/add/cmp to memory with an immediate outside the signed 32-bit range, and
              add/sub/cmp register immediates outside it, are not encodable: fault "imm-range". *)
From Coq Require Import List ZArith NArith String Bool FMapPositive.
From SCC Require Import Base.Sexp Lang.AxSyn Sem.AxSem Model.X86.
Import ListNotations.
Open Scope string_scope.
Open Scope Z_scope.

Definition HEAP_BASE : Z := 268435456.        (* 0x1000_0000 *)
Definition HEAP_SIZE : Z := 33554432.         (* 32 MiB as in driver-template.c *)
Definition STACK_TOP : Z := 2147418112.       (* 0x7fff_0000, 0 mod 16 *)
Definition STACK_LIMIT : Z := STACK_TOP - 1048576.
Definition CODE_BASE : Z := 1073741824.       (* 0x4000_0000 *)
Definition RET_MARKER : Z := 3735928559.

Module PM := PositiveMap.
Definition key (a : Z) : positive := Z.to_pos (a + 1).

Record xstate := {
  regs : PM.t Z;                 (* absent = undefined *)
  heap : PM.t Z;                 (* absent = 0 *)
  stack : PM.t Z;                (* absent = undefined *)
  flags : option (Z * Z);
  out : prints;                  (* reversed *)
  hw : Z;                        (* highest heap address written (for C10) *)
}.

Definition rget (s : xstate) (r : N) : option Z := PM.find (N.succ_pos r) (regs s).
Definition rset (s : xstate) (r : N) (v : option Z) : xstate :=
  {| regs := match v with Some z => PM.add (N.succ_pos r) z (regs s) | None => PM.remove (N.succ_pos r) (regs s) end;
     heap := heap s; stack := stack s; flags := flags s; out := out s; hw := hw s |}.
Definition set_flags (s : xstate) (f : option (Z * Z)) : xstate :=
  {| regs := regs s; heap := heap s; stack := stack s; flags := f; out := out s; hw := hw s |}.

Inductive mres (X : Type) := MOk (x : X) | MFault (why : string).
Arguments MOk {X} x.
Arguments MFault {X} why.

Definition in_heap (a : Z) : bool := (HEAP_BASE <=? a) && (a + 8 <=? HEAP_BASE + HEAP_SIZE).
Definition in_stack (a : Z) : bool := (STACK_LIMIT <=? a) && (a + 8 <=? STACK_TOP).
Definition aligned (a : Z) : bool := (a mod 8 =? 0).

Definition mload (s : xstate) (a : Z) : mres (option Z) :=
  if negb (aligned a) then MFault "unaligned-access"
  else if in_heap a then MOk (Some (match PM.find (key a) (heap s) with Some z => z | None => 0 end))
  else if in_stack a then MOk (PM.find (key a) (stack s))
  else MFault "out-of-bounds-load".
Definition mstore (s : xstate) (a : Z) (v : option Z) : mres xstate :=
  if negb (aligned a) then MFault "unaligned-access"
  else if in_heap a then
    match v with
    | Some z => MOk {| regs := regs s; heap := PM.add (key a) z (heap s); stack := stack s; flags := flags s;
                       out := out s; hw := Z.max (hw s) a |}
    | None => MFault "undef-stored-to-heap"
    end
  else if in_stack a then
    MOk {| regs := regs s;
           heap := heap s;
           stack := match v with Some z => PM.add (key a) z (stack s) | None => PM.remove (key a) (stack s) end;
           flags := flags s; out := out s; hw := hw s |}
  else MFault "out-of-bounds-store".

Definition fits32 (i : Z) : bool := (-2147483648 <=? i) && (i <=? 2147483647).

(* program image *)
Definition isize (c : xcode) : Z :=
  match c with
  | JMPLN _ => 5
  | LAB _ | NOEXECSTACK | TEXT | GLOBAL _ | EXTERN _ => 0
  | _ => 16
  end.
Record image := {
  code : PM.t xcode;            (* index -> instruction, indices from 1 *)
  addr_of : PM.t Z;             (* index -> byte address *)
  index_at : PM.t positive;     (* byte address key -> index *)
  labels : list (string * positive);
  len : positive;
}.
Fixpoint build (cs : list xcode) (i : positive) (a : Z) (im : image) : image :=
  match cs with
  | [] => {| code := code im; addr_of := addr_of im; index_at := index_at im; labels := labels im; len := i |}
  | c :: r =>
      let im' := {| code := PM.add i c (code im);
                    addr_of := PM.add i a (addr_of im);
                    index_at := match PM.find (key a) (index_at im) with Some _ => index_at im | None => PM.add (key a) i (index_at im) end;
                    labels := match c with LAB l => (l, i) :: labels im | _ => labels im end;
                    len := i |} in
      build r (Pos.succ i) (a + isize c) im'
  end.
Definition mk_image (cs : list xcode) : image :=
  build cs 1%positive CODE_BASE {| code := PM.empty _; addr_of := PM.empty _; index_at := PM.empty _; labels := []; len := 1%positive |}.
Fixpoint find_label (ls : list (string * positive)) (l : string) : option positive :=
  match ls with
  | [] => None
  | (l', i) :: r => if String.eqb l l' then Some i else find_label r l
  end.
(* the address of a label is the address of the next instruction of non-zero size; an indirect jump to an
   address enters at the FIRST (possibly zero-size: label, marker) instruction placed at that address *)
Definition label_addr (im : image) (l : string) : option Z :=
  match find_label (labels im) l with Some i => PM.find i (addr_of im) | None => None end.
Definition duplicate_labels (im : image) : list string :=
  (fix go (ls : list (string * positive)) : list string :=
     match ls with
     | [] => []
     | (l, _) :: r => if existsb (fun p => String.eqb (fst p) l) r then l :: go r else go r
     end) (labels im).

Inductive step_res :=
| Next (s : xstate)
| Jump (s : xstate) (i : positive)
| Done (s : xstate)                (* ret popped the entry marker *)
| Fault (why : string) (s : xstate)
| Undefd (why : string) (s : xstate).

Definition need (v : option Z) (why : string) (k : Z -> step_res) (s : xstate) : step_res :=
  match v with Some z => k z | None => Fault why s end.
Definition withm {X} (m : mres X) (s : xstate) (k : X -> step_res) : step_res :=
  match m with MOk x => k x | MFault w => Fault w s end.

(* effective address; a stack access below the stack pointer (memory the code has not reserved
   or pushed) is a fault *)
Definition ea (s : xstate) (b : N) (i : Z) (k : Z -> step_res) : step_res :=
  need (rget s b) "undef-address" (fun bz =>
    let a := bz + i in
    if in_stack a then
      match rget s 0%N with
      | Some sp => if a <? sp then Fault "access-below-stack-pointer" s else k a
      | None => Fault "undef-rsp" s
      end
    else k a) s.

Definition arith_rr (f : Z -> Z -> Z) (s : xstate) (a b : N) : step_res :=
  need (rget s a) "undef-operand" (fun x => need (rget s b) "undef-operand" (fun y =>
    Next (set_flags (rset s a (Some (wrap (f x y)))) None)) s) s.
Definition arith_rm (f : Z -> Z -> Z) (s : xstate) (a b : N) (i : Z) : step_res :=
  need (rget s a) "undef-operand" (fun x => ea s b i (fun ad => withm (mload s ad) s (fun v =>
    need v "undef-operand" (fun y => Next (set_flags (rset s a (Some (wrap (f x y)))) None)) s))) s.
Definition arith_mr (f : Z -> Z -> Z) (s : xstate) (a : N) (i : Z) (b : N) : step_res :=
  ea s a i (fun ad => withm (mload s ad) s (fun v => need v "undef-operand" (fun x =>
    need (rget s b) "undef-operand" (fun y => withm (mstore s ad (Some (wrap (f x y)))) s (fun s' =>
      Next (set_flags s' None))) s) s)).

Definition goto_label (im : image) (s : xstate) (l : string) : step_res :=
  match find_label (labels im) l with Some i => Jump s i | None => Fault ("undefined-label " ++ l) s end.
Definition cond_jump (im : image) (s : xstate) (sort : ifsort) (l : string) : step_res :=
  match flags s with
  | None => Fault "undef-flags" s
  | Some (x, y) => if eval_cmp sort x y then goto_label im s l else Next s
  end.
Definition goto_addr (im : image) (s : xstate) (a : Z) : step_res :=
  match PM.find (key a) (index_at im) with Some i => Jump s i | None => Fault "bad-jump-target" s end.

Definition caller_saved : list N := [4; 1; 5; 6; 7; 8; 9; 10; 11]%N.
Definition callee_saved : list N := [2; 3; 12; 13; 14; 15]%N.
Definition callee_marker (r : N) : Z := 1000000007 * (Z.of_N r + 1).

Definition havoc_call (s : xstate) (rsp : Z) : xstate :=
  let regs' := fold_left (fun m r => PM.remove (N.succ_pos r) m) caller_saved (regs s) in
  let stack' := PM.fold (fun k v acc => if Z.pos k - 1 <? rsp then acc else PM.add k v acc) (stack s) (PM.empty _) in
  {| regs := regs'; heap := heap s; stack := stack'; flags := None; out := out s; hw := hw s |}.

Definition step (im : image) (c : xcode) (s : xstate) : step_res :=
  match c with
  | ADD a b => arith_rr Z.add s a b
  | ADDRM a b i => arith_rm Z.add s a b i
  | ADDMR a i b => arith_mr Z.add s a i b
  | ADDI a i => if fits32 i then need (rget s a) "undef-operand" (fun x => Next (set_flags (rset s a (Some (wrap (x + i)))) None)) s
                else Fault "imm-range" s
  | ADDIM a i j => if fits32 j then ea s a i (fun ad => withm (mload s ad) s (fun v => need v "undef-operand" (fun x =>
                     withm (mstore s ad (Some (wrap (x + j)))) s (fun s' => Next (set_flags s' None))) s))
                   else Fault "imm-range" s
  | SUB a b => arith_rr Z.sub s a b
  | SUBRM a b i => arith_rm Z.sub s a b i
  | SUBMR a i b => arith_mr Z.sub s a i b
  | SUBI a i => if fits32 i then need (rget s a) "undef-operand" (fun x => Next (set_flags (rset s a (Some (wrap (x - i)))) None)) s
                else Fault "imm-range" s
  | IMUL a b => arith_rr Z.mul s a b
  | IMULRM a b i => arith_rm Z.mul s a b i
  | IMULMR a i b => arith_mr Z.mul s a i b   (* not an x86 instruction: rejected by asm_wf (C14), given its intended meaning here *)
  | CQO => need (rget s 4%N) "undef-operand" (fun x => Next (rset s 5%N (Some (if x <? 0 then -1 else 0)))) s
  | IDIV a =>
      need (rget s 4%N) "undef-operand" (fun x => need (rget s 5%N) "undef-operand" (fun hi =>
        need (rget s a) "undef-operand" (fun d =>
          if negb (hi =? (if x <? 0 then -1 else 0)) then Fault "idiv-wide-dividend" s
          else if d =? 0 then Undefd "div0" s
          else if (x =? min_int) && (d =? -1) then Undefd "overflow" s
          else Next (set_flags (rset (rset s 4%N (Some (Z.quot x d))) 5%N (Some (Z.rem x d))) None)) s) s) s
  | IDIVM a i =>
      need (rget s 4%N) "undef-operand" (fun x => need (rget s 5%N) "undef-operand" (fun hi =>
        ea s a i (fun ad => withm (mload s ad) s (fun v => need v "undef-operand" (fun d =>
          if negb (hi =? (if x <? 0 then -1 else 0)) then Fault "idiv-wide-dividend" s
          else if d =? 0 then Undefd "div0" s
          else if (x =? min_int) && (d =? -1) then Undefd "overflow" s
          else Next (set_flags (rset (rset s 4%N (Some (Z.quot x d))) 5%N (Some (Z.rem x d))) None)) s))) s) s
  | JMP a => need (rget s a) "undef-jump-target" (fun t => goto_addr im s t) s
  | JMPL l | JMPLN l => goto_label im s l
  | LEAL a l => match label_addr im l with Some t => Next (rset s a (Some t)) | None => Fault ("undefined-label " ++ l) s end
  | MOV a b => Next (rset s a (rget s b))
  | MOVS a b i => ea s b i (fun ad => withm (mstore s ad (rget s a)) s Next)
  | MOVL a b i => ea s b i (fun ad => withm (mload s ad) s (fun v => Next (rset s a v)))
  | MOVI a i => Next (rset s a (Some i))
  | MOVIM a i j => if fits32 j then ea s a i (fun ad => withm (mstore s ad (Some j)) s Next) else Fault "imm-range" s
  | CMP a b => need (rget s a) "undef-operand" (fun x => need (rget s b) "undef-operand" (fun y => Next (set_flags s (Some (x, y)))) s) s
  | CMPRM a b i => need (rget s a) "undef-operand" (fun x => ea s b i (fun ad => withm (mload s ad) s (fun v =>
                     need v "undef-operand" (fun y => Next (set_flags s (Some (x, y)))) s))) s
  | CMPMR a i b => ea s a i (fun ad => withm (mload s ad) s (fun v => need v "undef-operand" (fun x =>
                     need (rget s b) "undef-operand" (fun y => Next (set_flags s (Some (x, y)))) s) s))
  | CMPI a i => if fits32 i then need (rget s a) "undef-operand" (fun x => Next (set_flags s (Some (x, i)))) s else Fault "imm-range" s
  | CMPIM a i j => if fits32 j then ea s a i (fun ad => withm (mload s ad) s (fun v => need v "undef-operand" (fun x =>
                     Next (set_flags s (Some (x, j)))) s)) else Fault "imm-range" s
  | JEL l => cond_jump im s Eq l | JNEL l => cond_jump im s Ne l | JLL l => cond_jump im s Lt l
  | JLEL l => cond_jump im s Le l | JGL l => cond_jump im s Gt l | JGEL l => cond_jump im s Ge l
  | PUSH a => need (rget s 0%N) "undef-rsp" (fun sp => withm (mstore s (sp - 8) (rget s a)) s (fun s' =>
                Next (rset s' 0%N (Some (sp - 8))))) s
  | POP a => need (rget s 0%N) "undef-rsp" (fun sp => withm (mload s sp) s (fun v =>
               Next (rset (rset s a v) 0%N (Some (sp + 8))))) s
  | CALL l =>
      if String.eqb l "print_i64" || String.eqb l "println_i64" then
        need (rget s 0%N) "undef-rsp" (fun sp =>
          if negb (sp mod 16 =? 0) then Fault "misaligned-stack-at-call" s
          else need (rget s 7%N) "undef-print-argument" (fun v =>
            let s1 := {| regs := regs s; heap := heap s; stack := stack s; flags := flags s;
                         out := (String.eqb l "println_i64", v) :: out s; hw := hw s |} in
            Next (havoc_call s1 sp)) s) s
      else Fault ("call-to-unknown " ++ l) s
  | RET =>
      need (rget s 0%N) "undef-rsp" (fun sp => withm (mload s sp) s (fun v =>
        match v with
        | Some m => if m =? RET_MARKER then Done (rset s 0%N (Some (sp + 8))) else Fault "ret-to-garbage" s
        | None => Fault "ret-to-garbage" s
        end)) s
  | LAB _ | NOEXECSTACK | TEXT | GLOBAL _ | EXTERN _ => Next s
  end.

Definition init_state (args : list Z) : xstate :=
  let r0 := fold_left (fun m r => PM.add (N.succ_pos r) (callee_marker r) m) callee_saved (PM.empty Z) in
  let r1 := PM.add (N.succ_pos 0) (STACK_TOP - 8) (PM.add (N.succ_pos 7) HEAP_BASE r0) in
  let argregs := [6; 5; 1; 8; 9]%N in
  let r2 := fold_left (fun m (ra : N * Z) => PM.add (N.succ_pos (fst ra)) (snd ra) m) (combine argregs args) r1 in
  {| regs := r2; heap := PM.empty Z; stack := PM.add (key (STACK_TOP - 8)) RET_MARKER (PM.empty Z);
     flags := None; out := []; hw := HEAP_BASE - 8 |}.

Definition final_check (s : xstate) : outcome :=
  match rget s 0%N with
  | Some sp =>
      if negb (sp =? STACK_TOP) then OStuck "rsp-not-restored"
      else if negb (forallb (fun r => match rget s r with Some v => v =? callee_marker r | None => false end) callee_saved)
      then OStuck "callee-saved-register-not-restored"
      else match rget s 4%N with Some v => OExit v | None => OStuck "undef-result" end
  | None => OStuck "undef-rsp"
  end.

(* two-level fuel (outer * inner steps) so that no huge unary number is ever built *)
Inductive chunk_res := Finished (o : obs) (s : xstate) | More (pc : positive) (s : xstate).
Fixpoint run_chunk (fuel : nat) (im : image) (pc : positive) (s : xstate) : chunk_res :=
  match fuel with
  | O => More pc s
  | S f =>
      match PM.find pc (code im) with
      | None => Finished (finish (out s) (OStuck "fell-off-the-end")) s
      | Some c =>
          match step im c s with
          | Next s' => run_chunk f im (Pos.succ pc) s'
          | Jump s' i => run_chunk f im i s'
          | Done s' => Finished (finish (out s') (final_check s')) s'
          | Fault w s' => Finished (finish (out s') (OStuck w)) s'
          | Undefd w s' => Finished (finish (out s') (OUndef w)) s'
          end
      end
  end.
Fixpoint run (outer inner : nat) (im : image) (pc : positive) (s : xstate) : obs * xstate :=
  match outer with
  | O => (finish (out s) OOutOfFuel, s)
  | S o =>
      match run_chunk inner im pc s with
      | Finished ob s' => (ob, s')
      | More pc' s' => run o inner im pc' s'
      end
  end.

Definition run_x86 (outer inner : nat) (cs : list xcode) (args : list Z) : obs * xstate :=
  let im := mk_image cs in
  match find_label (labels im) "asm_main" with
  | None => ((([] : prints), OStuck "no-asm_main"), init_state args)
  | Some i =>
      if Nat.ltb 5 (List.length args) then ((([] : prints), OStuck "too-many-arguments"), init_state args)
      else run outer inner im i (init_state args)
  end.

(* blocks below the allocation frontier, as the highest heap address ever written (C10) *)
Definition heap_high_water (s : xstate) : Z := hw s.
