(* Executable semantics of the AArch64 (A64) instruction subset emitted by axcut2aarch64
   (Model/A64.acode), with undefined-value tracking and an external-call model for the print
   runtime.  Same design as Sem/X86Sem.v.  The meaning of each instruction follows the Arm
   Architecture Reference Manual (DDI 0487) for the 64-bit variants; it cannot be validated against
   hardware in this sandbox and is part of the trusted base.

   DECISIONS
   registers  `X n` is the code generator's INTERNAL number: n < 18 is the architectural Xn, n >= 18
              is X(n+1) (the printer skips the platform register X18, which is therefore never
              touched).  So internal 18..27 = X19..X28 (callee-saved), 28 = X29 (frame pointer,
              callee-saved), 29 = X30 (link register).  `SP` and `XZR` are separate: XZR reads 0 and
              discards writes.  Which of the two encodings of register 31 an instruction accepts
              is a matter for the assembler check (C14 asm_wf), not for this semantics.
   values     a register or a memory word holds `Some z` (a signed 64-bit integer, which may be an
              address) or `None` (undefined).  Moving, storing to the stack and loading undefined
              values is allowed; using one as an operand of arithmetic, comparison, MOVK, address
              computation, jump target, print argument or result is a fault (OStuck "undef-...").
   memory     8-byte words at 8-aligned addresses in two regions: the heap [HEAP_BASE, +HEAP_SIZE),
              zero-filled initially, and the stack [STACK_LIMIT, STACK_TOP), undefined initially.
              Any access outside the two regions, or not 8-aligned, is a fault.  Whenever SP is the
              base register of a load/store it must be 0 mod 16 (hardware SP alignment check,
              enabled for user code on Linux and macOS): fault "sp-misaligned".
              Immediate offsets of LDR/STR/LDP/STP are NOT checked for encodability here (asm_wf).
   code       every instruction occupies 4 bytes (all A64 instructions do), labels/directives 0.
              So the jump-table stride 4 (`jump_length`) is real: `ADD r, r, #4k; BR r` must land on
              the k-th `B` of the table.  An indirect branch must hit an instruction start.
   flags      NZCV, set by CMP (register/immediate) only, exactly as SUBS computes them:
              N = result negative, Z = result zero, C = no unsigned borrow, V = signed overflow.
              B.EQ Z; B.NE !Z; B.LT N<>V; B.LE Z or N<>V; B.GT !Z and N=V; B.GE N=V.
              (Proof/A64Sel.v shows these agree with the signed comparisons.)  No other emitted
              instruction sets flags (ADD/SUB/MUL are the non-flag-setting forms); an external call
              makes them undefined; a conditional branch on undefined flags is a fault.
   calls      `BL print_i64|println_i64`: sp must be 0 mod 16 (AAPCS64), X0 must be defined; the
              value is appended to the trace; then X0-X17 (internal 0..17), the link register X30
              (internal 29), the flags and every stack word below sp become undefined.
   entry      asm_main is entered like a C function: sp = STACK_TOP (0 mod 16), X0 = heap base,
              integer arguments in X1..X7, X19..X29 (internal 18..28) hold marker values, X30
              (internal 29) holds the return marker, everything else undefined.
              The run ends at a `RET` whose X30 holds the return marker; it is OExit X0 only if sp and
              all callee-saved registers have their entry values (else fault "callee-saved...").
   division   SDIV by zero yields 0 on hardware and min_int / -1 yields min_int; the SOURCE semantics
              calls both undefined, so they are reported as OUndef "div0" / "overflow" (comparisons
              against the AxCut machine skip them, as for x86-64).
   move-wide  MOVZ/MOVN/MOVK need a 16-bit immediate and a shift in {0,16,32,48}; anything else has
              no meaning: fault "movw-operand". *)
From Coq Require Import List ZArith NArith String Bool FMapPositive.
From SCC Require Import Base.Sexp Lang.AxSyn Sem.AxSem Model.A64.
Import ListNotations.
Open Scope string_scope.
Local Open Scope Z_scope.

Definition HEAP_BASE : Z := 268435456.        (* 0x1000_0000 *)
Definition HEAP_SIZE : Z := 33554432.         (* 32 MiB as in driver-template.c *)
Definition STACK_TOP : Z := 2147418112.       (* 0x7fff_0000, 0 mod 16 *)
Definition STACK_LIMIT : Z := STACK_TOP - 1048576.
Definition CODE_BASE : Z := 1073741824.       (* 0x4000_0000 *)
Definition RET_MARKER : Z := 3735928559.

Module PM := PositiveMap.
Definition key (a : Z) : positive := Z.to_pos (a + 1).

Record nzcv := { fN : bool; fZ : bool; fC : bool; fV : bool }.

Record astate := {
  regs : PM.t Z;                 (* internal register number -> value; absent = undefined *)
  spv : option Z;                (* the stack pointer *)
  heap : PM.t Z;                 (* absent = 0 *)
  stack : PM.t Z;                (* absent = undefined *)
  flags : option nzcv;
  out : prints;                  (* reversed *)
  hw : Z;                        (* highest heap address written (for C10) *)
}.

Definition xget (s : astate) (n : N) : option Z := PM.find (N.succ_pos n) (regs s).
Definition xset (s : astate) (n : N) (v : option Z) : astate :=
  {| regs := match v with Some z => PM.add (N.succ_pos n) z (regs s) | None => PM.remove (N.succ_pos n) (regs s) end;
     spv := spv s; heap := heap s; stack := stack s; flags := flags s; out := out s; hw := hw s |}.
Definition set_sp (s : astate) (v : option Z) : astate :=
  {| regs := regs s; spv := v; heap := heap s; stack := stack s; flags := flags s; out := out s; hw := hw s |}.
Definition set_flags (s : astate) (f : option nzcv) : astate :=
  {| regs := regs s; spv := spv s; heap := heap s; stack := stack s; flags := f; out := out s; hw := hw s |}.

Definition rget (s : astate) (r : areg) : option Z :=
  match r with X n => xget s n | SP => spv s | XZR => Some 0 end.
Definition rset (s : astate) (r : areg) (v : option Z) : astate :=
  match r with X n => xset s n v | SP => set_sp s v | XZR => s end.

Inductive mres (X : Type) := MOk (x : X) | MFault (why : string).
Arguments MOk {X} x.
Arguments MFault {X} why.

Definition in_heap (a : Z) : bool := (HEAP_BASE <=? a) && (a + 8 <=? HEAP_BASE + HEAP_SIZE).
Definition in_stack (a : Z) : bool := (STACK_LIMIT <=? a) && (a + 8 <=? STACK_TOP).
Definition aligned (a : Z) : bool := (a mod 8 =? 0).

Definition mload (s : astate) (a : Z) : mres (option Z) :=
  if negb (aligned a) then MFault "unaligned-access"
  else if in_heap a then MOk (Some (match PM.find (key a) (heap s) with Some z => z | None => 0 end))
  else if in_stack a then MOk (PM.find (key a) (stack s))
  else MFault "out-of-bounds-load".
Definition mstore (s : astate) (a : Z) (v : option Z) : mres astate :=
  if negb (aligned a) then MFault "unaligned-access"
  else if in_heap a then
    match v with
    | Some z => MOk {| regs := regs s; spv := spv s; heap := PM.add (key a) z (heap s); stack := stack s;
                       flags := flags s; out := out s; hw := Z.max (hw s) a |}
    | None => MFault "undef-stored-to-heap"
    end
  else if in_stack a then
    MOk {| regs := regs s; spv := spv s;
           heap := heap s;
           stack := match v with Some z => PM.add (key a) z (stack s) | None => PM.remove (key a) (stack s) end;
           flags := flags s; out := out s; hw := hw s |}
  else MFault "out-of-bounds-store".

(* program image *)
Definition isize (c : acode) : Z :=
  match c with
  | LAB _ | TEXT | GLOBAL _ => 0
  | _ => 4
  end.
Record image := {
  code : PM.t acode;            (* index -> instruction, indices from 1 *)
  addr_of : PM.t Z;             (* index -> byte address *)
  index_at : PM.t positive;     (* byte address key -> index *)
  labels : list (string * positive);
  len : positive;
}.
Fixpoint build (cs : list acode) (i : positive) (a : Z) (im : image) : image :=
  match cs with
  | [] => {| code := code im; addr_of := addr_of im; index_at := index_at im; labels := labels im; len := i |}
  | c :: r =>
      let im' := {| code := PM.add i c (code im);
                    addr_of := PM.add i a (addr_of im);
                    index_at := if isize c =? 0 then index_at im else PM.add (key a) i (index_at im);
                    labels := match c with LAB l => (l, i) :: labels im | _ => labels im end;
                    len := i |} in
      build r (Pos.succ i) (a + isize c) im'
  end.
Definition mk_image (cs : list acode) : image :=
  build cs 1%positive CODE_BASE {| code := PM.empty _; addr_of := PM.empty _; index_at := PM.empty _; labels := []; len := 1%positive |}.
Fixpoint find_label (ls : list (string * positive)) (l : string) : option positive :=
  match ls with
  | [] => None
  | (l', i) :: r => if String.eqb l l' then Some i else find_label r l
  end.
(* the address of a label is the address of the next instruction of non-zero size *)
Definition label_addr (im : image) (l : string) : option Z :=
  match find_label (labels im) l with Some i => PM.find i (addr_of im) | None => None end.
Definition duplicate_labels (im : image) : list string :=
  (fix go (ls : list (string * positive)) : list string :=
     match ls with
     | [] => []
     | (l, _) :: r => if existsb (fun p => String.eqb (fst p) l) r then l :: go r else go r
     end) (labels im).

Inductive step_res :=
| Next (s : astate)
| Jump (s : astate) (i : positive)
| Done (s : astate)                (* RET to the entry marker *)
| Fault (why : string) (s : astate)
| Undefd (why : string) (s : astate).

Definition need (v : option Z) (why : string) (k : Z -> step_res) (s : astate) : step_res :=
  match v with Some z => k z | None => Fault why s end.
Definition withm {X} (m : mres X) (s : astate) (k : X -> step_res) : step_res :=
  match m with MOk x => k x | MFault w => Fault w s end.

(* effective address base + offset; SP as base must be 16-byte aligned *)
Definition ea (s : astate) (b : areg) (i : Z) (k : Z -> step_res) : step_res :=
  need (rget s b) "undef-address" (fun bz =>
    match b with
    | SP => if bz mod 16 =? 0 then k (bz + i) else Fault "sp-misaligned" s
    | _ => k (bz + i)
    end) s.

Definition arith3 (f : Z -> Z -> Z) (s : astate) (d a b : areg) : step_res :=
  need (rget s a) "undef-operand" (fun x => need (rget s b) "undef-operand" (fun y =>
    Next (rset s d (Some (wrap (f x y))))) s) s.
Definition arith_imm (f : Z -> Z -> Z) (s : astate) (d a : areg) (i : Z) : step_res :=
  need (rget s a) "undef-operand" (fun x => Next (rset s d (Some (wrap (f x i))))) s.

(* SUBS x - y (CMP) *)
Definition unsigned (x : Z) : Z := x mod two64.
Definition cmp_flags (x y : Z) : nzcv :=
  let r := wrap (x - y) in
  {| fN := r <? 0; fZ := r =? 0; fC := unsigned y <=? unsigned x; fV := negb (x - y =? r) |}.
Definition cond_holds (sort : ifsort) (f : nzcv) : bool :=
  match sort with
  | Eq => fZ f
  | Ne => negb (fZ f)
  | Lt => negb (Bool.eqb (fN f) (fV f))
  | Le => fZ f || negb (Bool.eqb (fN f) (fV f))
  | Gt => negb (fZ f) && Bool.eqb (fN f) (fV f)
  | Ge => Bool.eqb (fN f) (fV f)
  end.

(* move-wide *)
Definition movw_ok (i sh : Z) : bool :=
  (0 <=? i) && (i <? 65536) && ((sh =? 0) || (sh =? 16) || (sh =? 32) || (sh =? 48)).
Definition movz_val (i sh : Z) : Z := wrap (i * 2 ^ sh).
Definition movn_val (i sh : Z) : Z := wrap (- 1 - i * 2 ^ sh).
Definition movk_val (old i sh : Z) : Z :=
  let u := unsigned old in
  wrap (u - ((u / 2 ^ sh) mod 65536) * 2 ^ sh + i * 2 ^ sh).

Definition goto_label (im : image) (s : astate) (l : string) : step_res :=
  match find_label (labels im) l with Some i => Jump s i | None => Fault ("undefined-label " ++ l) s end.
Definition cond_jump (im : image) (s : astate) (sort : ifsort) (l : string) : step_res :=
  match flags s with
  | None => Fault "undef-flags" s
  | Some f => if cond_holds sort f then goto_label im s l else Next s
  end.
Definition goto_addr (im : image) (s : astate) (a : Z) : step_res :=
  match PM.find (key a) (index_at im) with Some i => Jump s i | None => Fault "bad-jump-target" s end.

Definition LR : N := 29.
Definition caller_saved : list N := [0; 1; 2; 3; 4; 5; 6; 7; 8; 9; 10; 11; 12; 13; 14; 15; 16; 17]%N.
Definition callee_saved : list N := [18; 19; 20; 21; 22; 23; 24; 25; 26; 27; 28]%N.
Definition callee_marker (r : N) : Z := 1000000007 * (Z.of_N r + 1).

Definition havoc_call (s : astate) (sp : Z) : astate :=
  let regs' := fold_left (fun m r => PM.remove (N.succ_pos r) m) (LR :: caller_saved) (regs s) in
  let stack' := PM.fold (fun k v acc => if Z.pos k - 1 <? sp then acc else PM.add k v acc) (stack s) (PM.empty _) in
  {| regs := regs'; spv := spv s; heap := heap s; stack := stack'; flags := None; out := out s; hw := hw s |}.

Definition add_out (s : astate) (p : bool * Z) : astate :=
  {| regs := regs s; spv := spv s; heap := heap s; stack := stack s; flags := flags s; out := p :: out s; hw := hw s |}.

Definition step (im : image) (c : acode) (s : astate) : step_res :=
  match c with
  | ADD d a b => arith3 Z.add s d a b
  | ADDI d a i => arith_imm Z.add s d a i
  | SUB d a b => arith3 Z.sub s d a b
  | SUBI d a i => arith_imm Z.sub s d a i
  | MUL d a b => arith3 Z.mul s d a b
  | SDIV d a b =>
      need (rget s a) "undef-operand" (fun x => need (rget s b) "undef-operand" (fun y =>
        if y =? 0 then Undefd "div0" s
        else if (x =? min_int) && (y =? -1) then Undefd "overflow" s
        else Next (rset s d (Some (Z.quot x y)))) s) s
  | MSUB d a b c =>
      need (rget s a) "undef-operand" (fun x => need (rget s b) "undef-operand" (fun y =>
        need (rget s c) "undef-operand" (fun z => Next (rset s d (Some (wrap (z - x * y))))) s) s) s
  | B l => goto_label im s l
  | BR r => need (rget s r) "undef-jump-target" (fun t => goto_addr im s t) s
  | BL l =>
      if String.eqb l "print_i64" || String.eqb l "println_i64" then
        need (spv s) "undef-sp" (fun sp =>
          if negb (sp mod 16 =? 0) then Fault "misaligned-stack-at-call" s
          else need (xget s 0%N) "undef-print-argument" (fun v =>
            Next (havoc_call (add_out s (String.eqb l "println_i64", v)) sp)) s) s
      else Fault ("call-to-unknown " ++ l) s
  | ADR r l => match label_addr im l with Some t => Next (rset s r (Some t)) | None => Fault ("undefined-label " ++ l) s end
  | MOVR d a => Next (rset s d (rget s a))
  | MOVZ d i sh => if movw_ok i sh then Next (rset s d (Some (movz_val i sh))) else Fault "movw-operand" s
  | MOVN d i sh => if movw_ok i sh then Next (rset s d (Some (movn_val i sh))) else Fault "movw-operand" s
  | MOVK d i sh => if movw_ok i sh then need (rget s d) "undef-operand" (fun old => Next (rset s d (Some (movk_val old i sh)))) s
                   else Fault "movw-operand" s
  | LDR d b i => ea s b i (fun ad => withm (mload s ad) s (fun v => Next (rset s d v)))
  | STR a b i => ea s b i (fun ad => withm (mstore s ad (rget s a)) s Next)
  | STP_PRE_INDEX a1 a2 b i =>
      ea s b i (fun ad => withm (mstore s ad (rget s a1)) s (fun s1 =>
        withm (mstore s1 (ad + 8) (rget s a2)) s (fun s2 => Next (rset s2 b (Some ad)))))
  | LDP_POST_INDEX d1 d2 b i =>
      ea s b 0 (fun ad => withm (mload s ad) s (fun v1 => withm (mload s (ad + 8)) s (fun v2 =>
        Next (rset (rset (rset s d1 v1) d2 v2) b (Some (ad + i))))))
  | CMPR a b => need (rget s a) "undef-operand" (fun x => need (rget s b) "undef-operand" (fun y =>
                  Next (set_flags s (Some (cmp_flags x y)))) s) s
  | CMPI a i => need (rget s a) "undef-operand" (fun x => Next (set_flags s (Some (cmp_flags x i)))) s
  | BEQ l => cond_jump im s Eq l | BNE l => cond_jump im s Ne l | BLT l => cond_jump im s Lt l
  | BLE l => cond_jump im s Le l | BGT l => cond_jump im s Gt l | BGE l => cond_jump im s Ge l
  | RET =>
      match xget s LR with
      | Some m => if m =? RET_MARKER then Done s else Fault "ret-to-garbage" s
      | None => Fault "undef-link-register" s
      end
  | LAB _ | TEXT | GLOBAL _ => Next s
  end.

Definition init_state (args : list Z) : astate :=
  let r0 := fold_left (fun m r => PM.add (N.succ_pos r) (callee_marker r) m) callee_saved (PM.empty Z) in
  let r1 := PM.add (N.succ_pos LR) RET_MARKER (PM.add (N.succ_pos 0) HEAP_BASE r0) in
  let argregs := [1; 2; 3; 4; 5; 6; 7]%N in
  let r2 := fold_left (fun m (ra : N * Z) => PM.add (N.succ_pos (fst ra)) (snd ra) m) (combine argregs args) r1 in
  {| regs := r2; spv := Some STACK_TOP; heap := PM.empty Z; stack := PM.empty Z;
     flags := None; out := []; hw := HEAP_BASE - 8 |}.

Definition final_check (s : astate) : outcome :=
  match spv s with
  | Some sp =>
      if negb (sp =? STACK_TOP) then OStuck "sp-not-restored"
      else if negb (forallb (fun r => match xget s r with Some v => v =? callee_marker r | None => false end) callee_saved)
      then OStuck "callee-saved-register-not-restored"
      else match xget s 0%N with Some v => OExit v | None => OStuck "undef-result" end
  | None => OStuck "undef-sp"
  end.

(* two-level fuel (outer * inner steps) so that no huge unary number is ever built *)
Inductive chunk_res := Finished (o : obs) (s : astate) | More (pc : positive) (s : astate).
Fixpoint run_chunk (fuel : nat) (im : image) (pc : positive) (s : astate) : chunk_res :=
  match fuel with
  | O => More pc s
  | S f =>
      match PM.find pc (code im) with
      | None => Finished (finish (out s) (OStuck "fell-off-the-end")) s
      | Some c =>
          match step im c s with
          | Next s' => run_chunk f im (Pos.succ pc) s'
          | Jump s' i => run_chunk f im i s'
          | Done s' => Finished (finish (out s') (final_check s')) s'
          | Fault w s' => Finished (finish (out s') (OStuck w)) s'
          | Undefd w s' => Finished (finish (out s') (OUndef w)) s'
          end
      end
  end.
Fixpoint run (outer inner : nat) (im : image) (pc : positive) (s : astate) : obs * astate :=
  match outer with
  | O => (finish (out s) OOutOfFuel, s)
  | S o =>
      match run_chunk inner im pc s with
      | Finished ob s' => (ob, s')
      | More pc' s' => run o inner im pc' s'
      end
  end.

Definition run_a64 (outer inner : nat) (cs : list acode) (args : list Z) : obs * astate :=
  let im := mk_image cs in
  match find_label (labels im) "asm_main" with
  | None => ((([] : prints), OStuck "no-asm_main"), init_state args)
  | Some i =>
      if Nat.ltb 7 (List.length args) then ((([] : prints), OStuck "too-many-arguments"), init_state args)
      else run outer inner im i (init_state args)
  end.

(* straight-line execution (no control transfer), used by the instruction-selection lemmas *)
Fixpoint run_straight (im : image) (cs : list acode) (s : astate) : mres astate :=
  match cs with
  | [] => MOk s
  | c :: r =>
      match step im c s with
      | Next s' => run_straight im r s'
      | Jump _ _ => MFault "jump"
      | Done _ => MFault "ret"
      | Fault w _ => MFault w
      | Undefd w _ => MFault w
      end
  end.

(* blocks below the allocation frontier, as the highest heap address ever written (C10) *)
Definition heap_high_water (s : astate) : Z := hw s.
