(* Lockstep of the heap-instrumented AxCut machine (Sem/AxHeap.v) with the emitted x86-64 code on
   the ISA model: at every statement boundary of the implementation's code (its own statement
   comments, read as "#s" pseudo-labels) the machine state must be the abstraction of the
   instrumented configuration about to execute that statement:
     - the allocator registers equal `heap` / `free` of the abstract state;
     - the first temporary of every non-integer variable holds the pointer of the environment entry;
     - header and pointer slots (byte offsets 16, 32, 48) of every block below the abstract frontier
       equal `hdr` / `ps` of the abstract memory, and nothing at or above the frontier was written.
   This ties the machine the program-level theorems of Props/C09.v, Props/C10.v talk about to the
   real code on every run of the check. *)
From Coq Require Import List ZArith NArith String Ascii Bool FMapPositive.
From SCC Require Import Base.Sexp Lang.AxSyn Sem.AxSem Sem.AxTrace Sem.AxHeap Model.Backend Model.X86 Sem.X86Sem.
From SCC Require Model.Heap.
Import ListNotations.
Open Scope string_scope.
Open Scope Z_scope.

(* ---------- snapshots of the instrumented run ---------- *)
Record hsnap := { sn_kinds : string; sn_ptrs : list Z; sn_heap : Heap.st }.
Definition snap_of (he : henv) (hs : Heap.st) : hsnap :=
  {| sn_kinds := kinds_of_env (erase_env he); sn_ptrs := ptrs he; sn_heap := hs |}.

Fixpoint hsnaps (fuel : nat) (p : prog) (he : henv) (hs : Heap.st) (s : stmt) (acc : list hsnap) (nops : N)
  : list hsnap * N :=
  match fuel with
  | O => (rev_append acc [], nops)
  | S f =>
      let acc' := snap_of he hs :: acc in
      match hstep p he hs s with
      | HStep ops he' s' _ => hsnaps f p he' (hrun ops hs) s' acc' (nops + N.of_nat (List.length ops))%N
      | HEnd _ => (rev_append acc' [], nops)
      end
  end.
Definition hsnaps_prog (fuel : nat) (base : Z) (p : prog) (args : list Z) : list hsnap * N :=
  match pdefs p with
  | [] => ([], 0%N)
  | d :: _ => match entry_env d args with
              | Some e => hsnaps fuel p (attach e []) (Heap.init base) (dbody d) [] 0%N
              | None => ([], 0%N)
              end
  end.

(* ---------- comparison at a boundary ---------- *)
Definition hwd (s : xstate) (a : Z) : Z := match PM.find (key a) (X86Sem.heap s) with Some z => z | None => 0 end.

Definition temp_val (s : xstate) (sp : Z) (pos : N) : option Z :=
  match temporary_from_position (2 * pos)%N with
  | Ok (XR reg) => rget s reg
  | Ok (XS q) => PM.find (key (sp + stack_offset q)) (stack s)
  | Err _ => None
  end.

Fixpoint cmp_ptrs (s : xstate) (sp : Z) (kinds : string) (pl : list Z) (pos : N) : option string :=
  match kinds, pl with
  | EmptyString, [] => None
  | String c r, q :: pl' =>
      if Ascii.eqb c "p"%char then
        match temp_val s sp pos with
        | Some v => if v =? q then cmp_ptrs s sp r pl' (pos + 1)%N
                    else Some ("variable at position " ++ n_to_string pos ++ " holds " ++ z_to_string v ++ ", the machine has " ++ z_to_string q)
        | None => Some ("first temporary of position " ++ n_to_string pos ++ " undefined")
        end
      else cmp_ptrs s sp r pl' (pos + 1)%N
  | _, _ => Some "environment shape"
  end.

Definition slot (l : list Z) (k : nat) : Z := nth k l 0.
Fixpoint cmp_blocks (n : nat) (s : xstate) (hs : Heap.st) (a : Z) : option string :=
  match n with
  | O => None
  | S n' =>
      let b := Heap.m hs a in
      if (hwd s a =? Heap.hdr b) && (hwd s (a + 16) =? slot (Heap.ps b) 0) && (hwd s (a + 32) =? slot (Heap.ps b) 1)
         && (hwd s (a + 48) =? slot (Heap.ps b) 2)
      then cmp_blocks n' s hs (a + 64)
      else Some ("block " ++ z_to_string a ++ ": memory (" ++ z_to_string (hwd s a) ++ "; " ++ z_to_string (hwd s (a + 16)) ++ " "
                 ++ z_to_string (hwd s (a + 32)) ++ " " ++ z_to_string (hwd s (a + 48)) ++ ") abstract (" ++ z_to_string (Heap.hdr b) ++ "; "
                 ++ z_to_string (slot (Heap.ps b) 0) ++ " " ++ z_to_string (slot (Heap.ps b) 1) ++ " " ++ z_to_string (slot (Heap.ps b) 2) ++ ")")
  end.

(* `full`: compare every block; otherwise only the registers and the pointers of the variables (long
   runs compare all blocks at the first 256 boundaries, then at every 64th, and at the last one) *)
Definition cmp_snap (full : bool) (s : xstate) (sn : hsnap) : option string :=
  let hs := sn_heap sn in
  match rget s 0%N, rget s HEAP, rget s FREE with
  | Some sp, Some h, Some f =>
      if negb (h =? Heap.heap hs) then Some ("heap register " ++ z_to_string h ++ ", abstract " ++ z_to_string (Heap.heap hs))
      else if negb (f =? Heap.free hs) then Some ("free register " ++ z_to_string f ++ ", abstract " ++ z_to_string (Heap.free hs))
      else if negb (hw s <? Heap.frontier hs) then Some "memory at or above the abstract frontier has been written"
      else match cmp_ptrs s sp (sn_kinds sn) (sn_ptrs sn) 0 with
           | Some w => Some w
           | None => if full then cmp_blocks (Z.to_nat ((Heap.frontier hs - HEAP_BASE) / 64)) s hs HEAP_BASE else None
           end
  | _, _, _ => Some "stack, heap or free register undefined at a statement boundary"
  end.

(* ---------- the run ---------- *)
Record lstats := { l_boundaries : N; l_mismatch : option string; l_pending : list hsnap; l_underrun : bool }.
Definition at_lmark (s : xstate) (st : lstats) : lstats :=
  match l_pending st with
  | [] => {| l_boundaries := l_boundaries st; l_mismatch := l_mismatch st; l_pending := []; l_underrun := true |}
  | sn :: rest =>
      {| l_boundaries := l_boundaries st + 1;
         l_mismatch := match l_mismatch st with
                       | Some w => Some w
                       | None => match cmp_snap ((l_boundaries st <? 256)%N || (N.land (l_boundaries st) 63 =? 0)%N
                                                    || match rest with [] => true | _ => false end) s sn with
                                 | Some w => Some ("at boundary " ++ n_to_string (l_boundaries st) ++ ": " ++ w)
                                 | None => None
                                 end
                       end;
         l_pending := rest; l_underrun := l_underrun st |}
  end.

Inductive lchunk := LFinished (o : obs) (st : lstats) | LMore (pc : positive) (s : xstate) (st : lstats).
Fixpoint lrun_chunk (fuel : nat) (im : image) (pc : positive) (s : xstate) (st : lstats) : lchunk :=
  match fuel with
  | O => LMore pc s st
  | S f =>
      match PM.find pc (code im) with
      | None => LFinished (finish (out s) (OStuck "fell-off-the-end")) st
      | Some c =>
          let st' := match c with
                     | LAB (String "#"%char (String "s"%char _)) => at_lmark s st
                     | _ => st
                     end in
          match step im c s with
          | Next s' => lrun_chunk f im (Pos.succ pc) s' st'
          | Jump s' i => lrun_chunk f im i s' st'
          | Done s' => LFinished (finish (out s') (final_check s')) st'
          | Fault w s' => LFinished (finish (out s') (OStuck w)) st'
          | Undefd w s' => LFinished (finish (out s') (OUndef w)) st'
          end
      end
  end.
Fixpoint lrun (outer inner : nat) (im : image) (pc : positive) (s : xstate) (st : lstats) : obs * lstats :=
  match outer with
  | O => (finish (out s) OOutOfFuel, st)
  | S o =>
      match lrun_chunk inner im pc s st with
      | LFinished ob st' => (ob, st')
      | LMore pc' s' st' => lrun o inner im pc' s' st'
      end
  end.
Definition run_x86_lock (outer inner : nat) (cs : list xcode) (args : list Z) (snaps : list hsnap) : obs * lstats :=
  let im := mk_image cs in
  let st0 := {| l_boundaries := 0; l_mismatch := None; l_pending := snaps; l_underrun := false |} in
  match find_label (labels im) "asm_main" with
  | None => ((([] : prints), OStuck "no-asm_main"), st0)
  | Some i => lrun outer inner im i (init_state args) st0
  end.
