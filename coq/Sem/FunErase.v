(* Erasure of the annotations the type checker adds (C15 `check_annotates`): the checked program is
   the parsed program plus annotations, with the clauses of every case/new re-ordered into the
   declaration order of the type.
   [erase_term]  removes the annotations (ty/chi fields := None, clause contexts := []);
   [sort_clauses_term] additionally sorts the clauses of every case/new by xtor name (stable), the
   normal form under which a term and its checked version are compared. *)
From Coq Require Import List ZArith NArith String Bool.
From SCC Require Import Base.Sexp Lang.SynUtil Lang.FunSyn.
Import ListNotations.
Open Scope string_scope.
Open Scope list_scope.

Fixpoint erase_term (t : fterm) : fterm :=
  let el := fix go (l : list fterm) : list fterm := match l with [] => [] | a :: r => erase_term a :: go r end in
  let ec := fix go (l : list fclause) : list fclause :=
    match l with [] => [] | FClause p x ns _ b :: r => FClause p x ns [] (erase_term b) :: go r end in
  match t with
  | FVar v _ _ => FVar v None None
  | FLit n => FLit n
  | FOp a o b => FOp (erase_term a) o (erase_term b)
  | FIfC s a b th el' _ =>
      FIfC s (erase_term a) (match b with Some b' => Some (erase_term b') | None => None end)
           (erase_term th) (erase_term el') None
  | FPrint nl a next _ => FPrint nl (erase_term a) (erase_term next) None
  | FLet v vty a body _ => FLet v vty (erase_term a) (erase_term body) None
  | FCall f args _ => FCall f (el args) None
  | FCtor x args _ => FCtor x (el args) None
  | FDtor s x targs args _ => FDtor (erase_term s) x targs (el args) None
  | FCase s targs cls _ => FCase (erase_term s) targs (ec cls) None
  | FNew cls _ => FNew (ec cls) None
  | FLabel l t _ => FLabel l (erase_term t) None
  | FGoto l t _ => FGoto l (erase_term t) None
  | FExit a _ => FExit (erase_term a) None
  | FParen t => FParen (erase_term t)
  end.
Definition erase_clause (c : fclause) : fclause :=
  match c with FClause p x ns _ b => FClause p x ns [] (erase_term b) end.
Definition erase_def (d : fdef) : fdef := mkfdef (fdname d) (fdctx d) (fdret d) (erase_term (fdbody d)).

Definition clause_key (c : fclause) : string := match c with FClause _ x _ _ _ => x end.
Fixpoint insert_clause (c : fclause) (l : list fclause) : list fclause :=
  match l with
  | [] => [c]
  | d :: r => if String.leb (clause_key d) (clause_key c) then d :: insert_clause c r else c :: l
  end.
Definition sort_clauses (l : list fclause) : list fclause := fold_left (fun acc c => insert_clause c acc) l [].

Fixpoint sort_clauses_term (t : fterm) : fterm :=
  let el := fix go (l : list fterm) : list fterm := match l with [] => [] | a :: r => sort_clauses_term a :: go r end in
  let ec := fix go (l : list fclause) : list fclause :=
    match l with [] => [] | FClause p x ns c b :: r => FClause p x ns c (sort_clauses_term b) :: go r end in
  match t with
  | FVar v a c => FVar v a c
  | FLit n => FLit n
  | FOp a o b => FOp (sort_clauses_term a) o (sort_clauses_term b)
  | FIfC s a b th el' ty =>
      FIfC s (sort_clauses_term a) (match b with Some b' => Some (sort_clauses_term b') | None => None end)
           (sort_clauses_term th) (sort_clauses_term el') ty
  | FPrint nl a next ty => FPrint nl (sort_clauses_term a) (sort_clauses_term next) ty
  | FLet v vty a body ty => FLet v vty (sort_clauses_term a) (sort_clauses_term body) ty
  | FCall f args ty => FCall f (el args) ty
  | FCtor x args ty => FCtor x (el args) ty
  | FDtor s x targs args ty => FDtor (sort_clauses_term s) x targs (el args) ty
  | FCase s targs cls ty => FCase (sort_clauses_term s) targs (sort_clauses (ec cls)) ty
  | FNew cls ty => FNew (sort_clauses (ec cls)) ty
  | FLabel l t ty => FLabel l (sort_clauses_term t) ty
  | FGoto l t ty => FGoto l (sort_clauses_term t) ty
  | FExit a ty => FExit (sort_clauses_term a) ty
  | FParen t => FParen (sort_clauses_term t)
  end.

(* the checked definitions are the parsed ones plus annotations, up to the order of clauses *)
Definition norm_def (d : fdef) : fdef :=
  mkfdef (fdname d) (fdctx d) (fdret d) (sort_clauses_term (erase_term (fdbody d))).
Definition defs_erase_to (checked parsed : list fdef) : bool :=
  list_eqb fdef_eqb (map norm_def checked) (map norm_def parsed).
