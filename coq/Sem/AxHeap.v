(* The linear AxCut machine of Sem/AxSem.v (`exec_linear`) instrumented with the abstract allocator of
   Model/Heap.v.  Definitions only; nothing in AxSem.v is changed.

   Every environment entry carries, next to its (tree) value, the word the generated code keeps in
   the FIRST temporary of the variable: the pointer to the block(s) holding the fields of an object
   or the environment of a closure, 0 for an object/closure without fields ("mark no allocation"),
   0 for an integer (the code never reads the first temporary of an `ext` variable).

   A step of the machine emits the allocator operations (`Heap.op`) that the code which
   `Model/Backend.code_statement` generates for the statement performs, in the order in which it
   performs them, as a function of the statement and of the environment (names, kinds, pointers):

     substitute re   for every binding of the context, in the key order of the BTreeMap built by
                     `Backend.transpose` (name, then id), unless its kind is `ext`:
                       no target -> erase_block (OErase p);  one target -> nothing;
                       n+2 targets -> share_block_n (n+1) (OShare p (n+1))
                     (substitution.rs `code_weakening_contraction`; the parallel moves that follow
                     touch no memory)
     let / create    `store` of the last |args| (|env|) variables: OAllocObj fields, where a field is
                     the pointer of the variable, or 0 for an `ext` variable (store_zero); no field:
                     pointer 0, nothing allocated (alloc_object [] is the identity)
     switch / invoke `load` of the fields of the scrutinee / the environment of the closure into the
                     clause context / the captured variables: OLoadObj (nlinks n) p when n > 0 (the
                     header test, then release of all blocks, or decrement and share of the fields);
                     nothing when n = 0; the new variables get the pointer slots read from the heap
     call, literal, op, print, ifc, exit: no allocator operation.

   The heap component evolves by `Heap.step` only; the values and the control flow are those of
   `exec_linear` (erasing the pointers and the heap gives back that machine, Proof/AxHeapErase.v). *)
From Coq Require Import List ZArith NArith String Bool.
From SCC Require Import Base.Sexp Lang.AxSyn Sem.AxSem.
From SCC Require Model.Backend Model.Heap.
Import ListNotations.
Open Scope string_scope.
Open Scope list_scope.

(* ---------- environments with pointers ---------- *)
Definition hentry := (ident * value * Z)%type.
Definition henv := list hentry.
Definition h_id (x : hentry) : ident := fst (fst x).
Definition h_val (x : hentry) : value := snd (fst x).
Definition h_ptr (x : hentry) : Z := snd x.
Definition erase_env (he : henv) : env := map fst he.
Definition ptrs (he : henv) : list Z := map h_ptr he.
(* the roots of the abstract heap: the non-null pointers of the environment, with multiplicity *)
Definition roots (he : henv) : list Z := Heap.nz (ptrs he).

(* the binding a value stands for (kind and type as the typing context has them) *)
Definition chi_of (v : value) : chi := match v with VInt _ => Ext | VObj _ _ _ => Prd | VClo _ _ _ => Cns end.
Definition ty_of (v : value) : ty := match v with VInt _ => I64 | VObj t _ _ => Decl t | VClo t _ _ => Decl t end.
Definition binding_of (x : hentry) : binding := mkb (h_id x) (chi_of (h_val x)) (ty_of (h_val x)).
Definition ctx_of (he : henv) : ctx := map binding_of he.

Fixpoint hlookup (he : henv) (x : N) : option hentry :=
  match he with
  | [] => None
  | en :: r => if N.eqb (idn (h_id en)) x then Some en else hlookup r x
  end.
Definition ptr_of (he : henv) (x : N) : Z := match hlookup he x with Some en => h_ptr en | None => 0%Z end.

(* attach pointers to an environment (0 when the list runs out) *)
Fixpoint attach (e : env) (ps : list Z) : henv :=
  match e with
  | [] => []
  | xv :: r => match ps with
               | p :: ps' => (xv, p) :: attach r ps'
               | [] => (xv, 0%Z) :: attach r []
               end
  end.

(* ---------- the operations of a substitution ---------- *)
Definition rc_op (k : chi) (p : Z) (n : nat) : list Heap.op :=
  match k with
  | Ext => []
  | _ => match n with
         | O => [Heap.OErase p]
         | S O => []
         | S (S m) => [Heap.OShare p (Z.of_nat (S m))]
         end
  end.
Definition subst_ops (he : henv) (re : list (binding * ident)) : list Heap.op :=
  flat_map (fun bt : binding * list N =>
              rc_op (bchi (fst bt)) (ptr_of he (idn (bvar (fst bt)))) (List.length (snd bt)))
           (Backend.transpose re (ctx_of he)).
Fixpoint hsubst (he : henv) (re : list (binding * ident)) : option henv :=
  match re with
  | [] => Some []
  | (nb, old) :: r =>
      match hlookup he (idn old), hsubst he r with
      | Some en, Some he' => Some ((bvar nb, h_val en, h_ptr en) :: he')
      | _, _ => None
      end
  end.

(* the pointer slot `store_value` writes for a variable *)
Definition store_ptr (en : hentry) : Z := match chi_of (h_val en) with Ext => 0%Z | _ => h_ptr en end.
(* the pointers `load` delivers for n fields of the object at p *)
Definition load_ptrs (hs : Heap.st) (n : nat) (p : Z) : list Z :=
  Heap.lastn n (Heap.obj_fields (Heap.nlinks n) (Heap.m hs) p).
Definition load_ops (n : nat) (p : Z) : list Heap.op :=
  match n with O => [] | _ => [Heap.OLoadObj (Heap.nlinks n) p] end.

(* ---------- one step ---------- *)
Inductive hout :=
| HStep (ops : list Heap.op) (he' : henv) (s' : stmt) (pr : option (bool * Z))
| HEnd (o : outcome).

Definition hstep (p : prog) (he : henv) (hs : Heap.st) (s : stmt) : hout :=
  match s with
  | Substitute re next =>
      match hsubst he re with
      | Some he' => HStep (subst_ops he re) he' next None
      | None => HEnd (OStuck "substitute-unbound")
      end
  | Call l _ =>
      match find_def p l with
      | None => HEnd (OStuck "call-label")
      | Some d =>
          match bind (vars (dctx d)) (map snd (erase_env he)) with
          | Some e' => HStep [] (attach e' (ptrs he)) (dbody d) None
          | None => HEnd (OStuck "call-shape")
          end
      end
  | Let v t tag args next =>
      match ty_name t, split_last (List.length args) he with
      | Some tn, Some (he0, fs) =>
          if ids_eqb (env_ids (erase_env fs)) (ids args)
          then let fields := map store_ptr fs in
               HStep [Heap.OAllocObj fields]
                     (he0 ++ [(v, VObj tn tag (map h_val fs), fst (Heap.alloc_object fields hs))]) next None
          else HEnd (OStuck "let-shape")
      | None, _ => HEnd (OStuck "let-type")
      | _, None => HEnd (OStuck "let-shape")
      end
  | Switch v t cls =>
      match split_last 1 he with
      | Some (he0, [(x, VObj _ tag fs, q)]) =>
          if N.eqb (idn x) (idn v) then
            match find_clause cls tag with
            | None => HEnd (OStuck "no-clause")
            | Some c =>
                match bind (vars (cl_ctx c)) fs with
                | Some e1 =>
                    let n := List.length (cl_ctx c) in
                    HStep (load_ops n q) (he0 ++ attach e1 (load_ptrs hs n q)) (cl_body c) None
                | None => HEnd (OStuck "switch-arity")
                end
            end
          else HEnd (OStuck "switch-shape")
      | Some (_, [(_, _, _)]) => HEnd (OStuck "switch-kind")
      | _ => HEnd (OStuck "switch-shape")
      end
  | Create v t (Some cenv) cls next =>
      match ty_name t, split_last (List.length cenv) he with
      | Some tn, Some (he0, cap) =>
          if ids_eqb (env_ids (erase_env cap)) (ids cenv)
          then match bind (vars cenv) (map h_val cap) with
               | Some ce =>
                   let fields := map store_ptr cap in
                   HStep [Heap.OAllocObj fields]
                         (he0 ++ [(v, VClo tn cls ce, fst (Heap.alloc_object fields hs))]) next None
               | None => HEnd (OStuck "create-shape")
               end
          else HEnd (OStuck "create-shape")
      | None, _ => HEnd (OStuck "create-type")
      | _, None => HEnd (OStuck "create-shape")
      end
  | Create _ _ None _ _ => HEnd (OStuck "create-no-env")
  | Invoke v tag t _ =>
      match split_last 1 he with
      | Some (he0, [(x, VClo _ cls ce, q)]) =>
          if N.eqb (idn x) (idn v) then
            match find_clause cls tag with
            | None => HEnd (OStuck "no-clause")
            | Some c =>
                match bind (vars (cl_ctx c)) (map snd (erase_env he0)) with
                | Some e1 =>
                    let n := List.length ce in
                    HStep (load_ops n q) (attach e1 (ptrs he0) ++ attach ce (load_ptrs hs n q)) (cl_body c) None
                | None => HEnd (OStuck "invoke-shape")
                end
            end
          else HEnd (OStuck "invoke-shape")
      | Some (_, [(_, _, _)]) => HEnd (OStuck "invoke-kind")
      | _ => HEnd (OStuck "invoke-shape")
      end
  | Literal n v next => HStep [] (he ++ [(v, VInt n, 0%Z)]) next None
  | Op a o b v next =>
      match lookup_int (erase_env he) a, lookup_int (erase_env he) b with
      | Some x, Some y =>
          match eval_op o x y with
          | OpVal z => HStep [] (he ++ [(v, VInt z, 0%Z)]) next None
          | OpUndef why => HEnd (OUndef why)
          end
      | _, _ => HEnd (OStuck "op-operand")
      end
  | PrintI64 nl v next =>
      match lookup_int (erase_env he) v with
      | Some z => HStep [] he next (Some (nl, z))
      | None => HEnd (OStuck "print-operand")
      end
  | IfC so a b t el =>
      match lookup_int (erase_env he) a,
            match b with Some b => lookup_int (erase_env he) b | None => Some 0%Z end with
      | Some x, Some y => HStep [] he (if eval_cmp so x y then t else el) None
      | _, _ => HEnd (OStuck "ifc-operand")
      end
  | Exit v =>
      match lookup_int (erase_env he) v with
      | Some z => HEnd (OExit z)
      | None => HEnd (OStuck "exit-operand")
      end
  end.

(* the heap after a list of operations *)
Definition hrun (ops : list Heap.op) (hs : Heap.st) : Heap.st := fold_left Heap.step ops hs.

(* ---------- configurations, runs, traces ---------- *)
Record hconf := mkhc { hc_env : henv; hc_heap : Heap.st; hc_stmt : stmt }.

Definition push_print (pr : option (bool * Z)) (out : prints) : prints :=
  match pr with Some x => x :: out | None => out end.

(* fuelled run: the observation, the final configuration, and the allocator operations performed *)
Fixpoint hexec (fuel : nat) (p : prog) (c : hconf) (out : prints) (tr : list Heap.op) : obs * hconf * list Heap.op :=
  match fuel with
  | O => (finish out OOutOfFuel, c, rev_append tr [])
  | S f =>
      match hstep p (hc_env c) (hc_heap c) (hc_stmt c) with
      | HEnd o => (finish out o, c, rev_append tr [])
      | HStep ops he' s' pr =>
          hexec f p (mkhc he' (hrun ops (hc_heap c)) s') (push_print pr out) (rev_append ops tr)
      end
  end.

Definition hinit (base : Z) (d : def) (e : env) : hconf := mkhc (attach e []) (Heap.init base) (dbody d).

Definition hrun_prog (fuel : nat) (base : Z) (p : prog) (args : list Z) : option (obs * hconf * list Heap.op) :=
  match pdefs p with
  | [] => None
  | d :: _ =>
      match entry_env d args with
      | Some e => Some (hexec fuel p (hinit base d e) [] [])
      | None => None
      end
  end.

(* reachability, with the operations performed on the way *)
Inductive hsteps (p : prog) : hconf -> list Heap.op -> hconf -> Prop :=
| hsteps_refl c : hsteps p c [] c
| hsteps_step c tr c1 ops he' s' pr :
    hsteps p c tr c1 ->
    hstep p (hc_env c1) (hc_heap c1) (hc_stmt c1) = HStep ops he' s' pr ->
    hsteps p c (tr ++ ops) (mkhc he' (hrun ops (hc_heap c1)) s').

Definition hreach (base : Z) (p : prog) (args : list Z) (tr : list Heap.op) (c : hconf) : Prop :=
  exists d ds e, pdefs p = d :: ds /\ entry_env d args = Some e /\ hsteps p (hinit base d e) tr c.
