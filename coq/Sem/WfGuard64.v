(* C14: the boolean hypotheses of the theorems "the AArch64 / RISC-V code generator only emits well-formed assembly"
   (Proof/A64WfAll.v: a64_compile_asm_wf, Proof/RVWfAll.v: rv_compile_asm_wf), executable so that the run-time checks
   (Model/RunA64.v step wf-a64, Model/RunRV.v step wf-rv) evaluate the SAME predicates on every program they see.

   Besides the guards shared with x86-64 (Sem/WfGuard.v: labels_guard, lin_check_prog, plain names / types) the
   NUMERIC side conditions are the ranges of the immediates whose value comes from the program:

     AArch64   xtors      none since the repair of the finding "tag dispatch immediate" (docs/C14.md): the dispatch of
                          `invoke` was `ADD Xt, Xt, #4*k` for every k (12-bit immediate: encodable only for k <= 1023;
                          a codata type with 1100 destructors was accepted by the front end and its code rejected by
                          the assembler); the repaired code synthesises a larger offset in the second scratch register.
                          The old limit is kept as A64_XTORS_MAX for the regression lemmas about the old code.
               substs     no guard: `ADD X3, X3, #n` (n = copies of one variable - 1) needs n < 4096, which follows from
                          `compile = Ok` - every copy gets a temporary and there are fewer than 281 positions
                          (Proof/CodegenForallLinP.v: targets_bound).
               reach      the routine is shorter than 1 MiB (B.cond / ADR reach +-1 MiB), guaranteed through a
                          two-weight refinement of the size bound of C19 (cg_fine below: 28 + cg_fine_defs 14 74
                          instructions of 4 bytes; Proof/SizeCodegenFine.v, SizeA64Fine.v).  Real limit (known finding
                          a64-branch-reach): a conditional whose else branch exceeds 1 MiB gets a B.cond out of
                          range; the guard over-approximates it (whole routine instead of the single branch distance).
               literals   none: MOVZ / MOVN / MOVK synthesise every value from its four half-words.
     RISC-V    xtors      fewer than 2^61 xtors per type (the offset 4k is a 64-bit value for `LI`); the old code
                          (`ADDI X1, Xt, 4k` for every k, 12-bit signed: k <= 511) is kept for the regression lemmas.
               substs     no guard (`ADDI X1, X1, n`, n < 2048): fewer than 28 positions.
               literals   64-bit values (`LI`).
   The statement predicate is parametric in the literal test. *)
From Coq Require Import List ZArith NArith String Ascii Bool.
From SCC Require Import Base.Sexp Lang.AxSyn Lang.AxSize Model.Backend Model.Linearize Model.LinCheck Model.SizeWf
  Sem.LabelGuard Sem.WfGuard.
Import ListNotations.
Local Open Scope list_scope.

Fixpoint stmt_immP (lit : Z -> bool) (s : stmt) : bool :=
  let go := fix go (cls : list (ident * ctx * stmt)) : bool :=
    match cls with [] => true | (_, _, b) :: r => stmt_immP lit b && go r end in
  match s with
  | Literal n _ next => lit n && stmt_immP lit next
  | Substitute _ next | Op _ _ _ _ next | PrintI64 _ _ next | Let _ _ _ _ next => stmt_immP lit next
  | IfC _ _ _ t e => stmt_immP lit t && stmt_immP lit e
  | Call _ _ | Exit _ | Invoke _ _ _ _ => true
  | Switch _ _ cls => go cls
  | Create _ _ _ cls next => go cls && stmt_immP lit next
  end.
Definition clauses_immP (lit : Z -> bool) (cls : list clause) : bool :=
  forallb (fun c => stmt_immP lit (cl_body c)) cls.
Definition xtors_le (xm : N) (types : list tydecl) : bool :=
  forallb (fun d => N.leb (N.of_nat (List.length (txtors d))) xm) types.
Definition imm_guardP (xm : N) (lit : Z -> bool) (p : prog) : bool :=
  forallb (fun d => stmt_immP lit (dbody d)) (pdefs p) && xtors_le xm (ptypes p).

(* ---------- a two-weight instruction bound (Proof/SizeCodegenFine.v) ----------
   The recursion of Lang/AxSize.cg_bound with two unit costs: m for every unit of a memory operation (store / load of
   a context: `1 + number of variables`), k for every other unit (marks, labels, jumps, literals, arithmetic, moves,
   reference counts, parallel moves, print).  cg_fine k k = k * cg_bound. *)
Local Open Scope N_scope.
Fixpoint cg_fine (k m : N) (s : stmt) (n : N) : N :=
  k +
  match s with
  | Substitute re next => k * n + k * (1 + n + len re) + cg_fine k m next (len re)
  | Call _ _ => k
  | Let _ _ _ args next => m * (1 + len args) + k + cg_fine k m next (n - len args + 1)
  | Switch _ _ cls =>
      k * 4 + k * len cls +
      (fix go (l : list (ident * ctx * stmt)) : N :=
         match l with [] => 0 | (_, cx, b) :: r => k + m * (1 + len cx) + cg_fine k m b (n - 1 + len cx) + go r end) cls
  | Create _ _ env cls next =>
      m * (1 + env_len env) + k + cg_fine k m next (n - env_len env + 1) + k + k * len cls +
      (fix go (l : list (ident * ctx * stmt)) : N :=
         match l with [] => 0 | (_, cx, b) :: r => k + m * (1 + env_len env) + cg_fine k m b (len cx + env_len env) + go r end) cls
  | Invoke _ _ _ _ => k
  | Literal _ _ next => k + cg_fine k m next (n + 1)
  | Op _ _ _ _ next => k + cg_fine k m next (n + 1)
  | PrintI64 _ _ next => k * (1 + n) + cg_fine k m next n
  | IfC _ _ _ t e => k * 2 + cg_fine k m e n + cg_fine k m t n
  | Exit _ => k * 2
  end.
Fixpoint cg_fine_sw (k m n : N) (l : list (ident * ctx * stmt)) : N :=
  match l with [] => 0 | (_, cx, b) :: r => k + m * (1 + len cx) + cg_fine k m b (n - 1 + len cx) + cg_fine_sw k m n r end.
Fixpoint cg_fine_cr (k m e : N) (l : list (ident * ctx * stmt)) : N :=
  match l with [] => 0 | (_, cx, b) :: r => k + m * (1 + e) + cg_fine k m b (len cx + e) + cg_fine_cr k m e r end.
Fixpoint cg_fine_defs (k m : N) (ds : list def) : N :=
  match ds with [] => 0 | d :: r => k + cg_fine k m (dbody d) (len (dctx d)) + cg_fine_defs k m r end.
Local Close Scope N_scope.

(* ---------- AArch64 ---------- *)
Definition A64_SUBST_MAX : N := 4096.         (* bound on the copies of one variable, from the capacity: no guard *)
Definition A64_XTORS_MAX : N := 1024.          (* the limit of the code before the repair (regression lemmas) *)
Definition A64_REACH : N := 262143.          (* instructions: 4 * 262143 = 1048572 bytes *)
Definition any_lit (z : Z) : bool := true.
Definition old_imm_guard_a64 (p : prog) : bool := imm_guardP A64_XTORS_MAX any_lit p.
(* the largest number of xtors of a declared type *)
Definition max_xtors (types : list tydecl) : N :=
  fold_right (fun d m => N.max (N.of_nat (List.length (txtors d))) m) 0%N types.
(* the routine is shorter than the reach of B.cond / ADR: 28 instructions of the wrapper + the two-weight bound with
   14 instructions per simple unit (the largest: erase_block) and 74 per unit of a memory operation (29 + 15 * 3:
   acquire_block with the three erase_block of a reused block) *)
Definition A64_K0 : N := 14.
Definition A64_KM : N := 74.
Definition a64_fine_bound (p : prog) : N := (a64_routine_overhead + cg_fine_defs A64_K0 A64_KM (pdefs p))%N.
Definition reach_guard_a64 (p : prog) : bool := N.ltb (a64_fine_bound p) A64_REACH.

Definition wf_guards_a64 (p : prog) : list (string * bool) :=
  [("labels-guard", labels_guard p); ("lin-check", lin_check_prog p);
   ("plain-names", plain_names_b p); ("plain-types", plain_types_b p); ("reach-guard", reach_guard_a64 p)]%string.
Definition wf_guard_a64 (p : prog) : bool := forallb snd (wf_guards_a64 p).

(* ---------- RISC-V ---------- *)
Definition RV_SUBST_MAX : N := 2048.          (* as A64_SUBST_MAX *)
Definition RV_XTORS_MAX : N := 2305843009213693952.   (* 2^61 *)
Definition RV_OLD_XTORS_MAX : N := 512.       (* the limit of the code before the repair (regression lemmas) *)
Definition old_imm_guard_rv (p : prog) : bool := imm_guardP RV_OLD_XTORS_MAX lit64 p.
Definition imm_guard_rv (p : prog) : bool := imm_guardP RV_XTORS_MAX lit64 p.

Definition wf_guards_rv (p : prog) : list (string * bool) :=
  [("labels-guard", labels_guard p); ("lin-check", lin_check_prog p); ("imm-guard", imm_guard_rv p)]%string.
Definition wf_guard_rv (p : prog) : bool := forallb snd (wf_guards_rv p).

(* the first hypothesis a program is outside of (diagnostics of the run-time checks) *)
Definition guards_failed (gs : list (string * bool)) : string :=
  match find (fun g => negb (snd g)) gs with Some g => fst g | None => EmptyString end.
