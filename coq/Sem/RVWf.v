(* Well-formedness of a RISC-V instruction list as emitted by axcut2rv64 (C14): every label defined
   exactly once (the routine text adds `cleanup:` itself, see RV.into_rv64_routine), every referenced
   label defined, registers x0..x31, and every operand within the range of its RV64I form
   (unprivileged ISA manual): ADDI / JALR / LW / SW take a sign-extended 12-bit immediate; LI and LA are
   assembler pseudo-instructions (any 64-bit value / any label); conditional branches reach
   -4096..4094 bytes, JAL -1 MiB..1 MiB-2.  Branch distances are computed with the SMALLEST possible
   size of every instruction (LI 4, LA 8, everything else 4 bytes, no compressed forms), so a reported
   branch is out of range for every expansion.  Executable. *)
From Coq Require Import List ZArith NArith String Ascii Bool.
From SCC Require Import Base.Sexp Model.RV.
Import ListNotations.
Local Open Scope string_scope.
Local Open Scope list_scope.

Definition reg_ok (r : reg) : bool := N.ltb r 32.
Definition simm12 (i : Z) : bool := ((-2048 <=? i) && (i <=? 2047))%Z.
Definition imm64 (i : Z) : bool := ((-9223372036854775808 <=? i) && (i <=? 9223372036854775807))%Z.

Definition instr_wf (c : rcode) : bool :=
  match c with
  | ADD x y z | SUB x y z | MUL x y z | DIV x y z | REM x y z => reg_ok x && reg_ok y && reg_ok z
  | ADDI x y i | JALR x y i | LW x y i | SW x y i => reg_ok x && reg_ok y && simm12 i
  | JAL x _ | LA x _ => reg_ok x
  | LI x i => reg_ok x && imm64 i
  | MV x y => reg_ok x && reg_ok y
  | BEQ x y _ | BNE x y _ | BLT x y _ | BLE x y _ | BGT x y _ | BGE x y _ => reg_ok x && reg_ok y
  | LAB _ => true
  end.

Definition referenced (c : rcode) : list string :=
  match c with
  | JAL _ l | LA _ l | BEQ _ _ l | BNE _ _ l | BLT _ _ l | BLE _ _ l | BGT _ _ l | BGE _ _ l => [l]
  | _ => []
  end.
Definition all_defs (c : rcode) : list string := match c with LAB l => [l] | _ => [] end.
Definition defined_labels (cs : list rcode) : list string := flat_map all_defs cs.
Definition mem_str (x : string) (l : list string) : bool := existsb (String.eqb x) l.
Fixpoint first_dup (l : list string) : option string :=
  match l with [] => None | x :: r => if mem_str x r then Some x else first_dup r end.

Definition min_size (c : rcode) : Z := match c with LAB _ => 0 | LA _ _ => 8 | _ => 4 end%Z.
Fixpoint label_addrs (cs : list rcode) (a : Z) : list (string * Z) :=
  match cs with
  | [] => []
  | LAB l :: r => (l, a) :: label_addrs r a
  | c :: r => label_addrs r (a + min_size c)
  end.
Fixpoint lookup (l : string) (m : list (string * Z)) : option Z :=
  match m with [] => None | (k, v) :: r => if String.eqb l k then Some v else lookup l r end.
Fixpoint far_branch (m : list (string * Z)) (cs : list rcode) (a : Z) : option string :=
  match cs with
  | [] => None
  | c :: r =>
      let far (l : string) (lo hi : Z) :=
        match lookup l m with
        | Some t => if ((lo <=? t - a) && (t - a <=? hi))%Z then far_branch m r (a + min_size c) else Some l
        | None => far_branch m r (a + min_size c)
        end in
      match c with
      | BEQ _ _ l | BNE _ _ l | BLT _ _ l | BLE _ _ l | BGT _ _ l | BGE _ _ l => far l (-4096) 4094
      | JAL _ l => far l (-1048576) 1048574
      | _ => far_branch m r (a + min_size c)
      end
  end%Z.
Definition code_bytes (cs : list rcode) : Z := fold_left (fun a c => a + min_size c)%Z cs 0%Z.
Definition branches_in_range (cs : list rcode) : option string :=
  if (code_bytes cs <? 4094)%Z then None else far_branch (label_addrs cs 0) cs 0.

(* `cleanup` is defined by the routine text, not by the instruction list *)
Definition asm_wf (cs : list rcode) : option string :=
  let labs := defined_labels cs in
  match first_dup ("cleanup" :: labs) with
  | Some l => Some ("label defined twice: " ++ l)%string
  | None =>
      match find (fun l => negb (mem_str l ("cleanup" :: labs))) (flat_map referenced cs) with
      | Some l => Some ("undefined label: " ++ l)%string
      | None =>
          match find (fun c => negb (instr_wf c)) cs with
          | Some c => Some "operand not encodable in its instruction form"
          | None => None
          end
      end
  end.
