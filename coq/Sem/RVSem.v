(* Executable semantics of the RV64 instruction subset emitted by axcut2rv64 (Model/RV.rcode), with
   undefined-value tracking.  It follows the RISC-V unprivileged specification (RV64IM) for the
   instructions and the RISC-V assembler manual for the pseudo-instructions; it cannot be run
   against hardware or an emulator in this environment (no RISC-V tool chain), so it is trusted.

   DECISIONS
   values     a register or a memory word holds `Some z` (a signed 64-bit integer, which may be an
              address) or `None` (undefined).  Moving an undefined value (MV) is allowed; using one
              as an operand of arithmetic, a comparison, an address computation, a jump target, or
              as the result is a fault (OStuck "undef-...").  Storing an undefined value to the
              heap is a fault too ("undef-stored-to-heap"), as in Sem/X86Sem.v.
   x0         register 0 reads as 0 and ignores writes.
   width      `LW`/`SW` are read as 64-bit accesses (`ld`/`sd`), as the property says: the crate
              uses 8-byte slots, so a literal 32-bit reading would truncate every pointer.
   memory     8-byte words at 8-aligned addresses in ONE region, the heap [HEAP_BASE, +HEAP_SIZE),
              zero-filled initially.  There is no stack (the crate never touches sp).  Any access
              outside the heap, or unaligned, is a fault.
   code       every instruction has a byte address.  A machine instruction occupies 4 bytes
              (no compressed instructions); `JAL` in particular is always 4 bytes, which is what
              `jump_length n = 4 n` assumes for jump tables.  Pseudo-instructions occupy what a
              standard assembler expands them to at most: `LA` 8 (auipc+addi), `LI` 4 / 8 / 32
              depending on the immediate (12-bit, 32-bit, anything), `MV`, `BLE`, `BGT` 4.  Labels
              occupy 0.  An indirect jump (`JALR`) clears bit 0 of the target, as the hardware
              does, and must then hit an instruction start, otherwise fault "bad-jump-target".
   immediates `ADDI`, `LW`, `SW`, `JALR` take a 12-bit signed immediate: outside [-2048, 2047] is
              fault "imm-range" (the crate's comment says it does not check this).  `LI` takes any
              64-bit immediate (pseudo-instruction).
   arithmetic ADD/ADDI/SUB/MUL wrap to 64 bits.  DIV/REM: the hardware defines x/0 = -1,
              x%0 = x, min/-1 = min, min%-1 = 0; the source semantics calls these cases undefined,
              and the property excludes them, so they are reported as OUndef "div0" / "overflow"
              (exactly the cases Sem/AxSem.eval_op reports), never given the hardware value.
   branches   BEQ BNE BLT BGE are signed comparisons of two registers; BLE/BGT are the assembler's
              operand-swapped BGE/BLT.  The target is a label.
   link       JAL/JALR write the address of the next instruction (pc + 4) to rd (ignored for x0,
              which is all the crate uses).
   entry      the crate provides no set-up code ("// actual code" + instructions + `cleanup:`), so
              the entry state is what `setup` establishes on the other two back ends: control at
              the FIRST instruction (the label of the first definition), HEAP = X2 = heap base,
              FREE = X3 = heap base + field_offset(Fst, FIELDS_PER_BLOCK) (one block further),
              the i-th integer argument of the first definition in the Snd register of
              environment position i (X5, X7, ..), every other register undefined.
   exit       the run ends when control reaches the label `cleanup` (appended after the
              instructions, as into_rv64_routine does); the result is X10 (RETURN1); an undefined
              X10 is OStuck "undef-result".  Falling off the end otherwise is a fault.
   prints     none: the trace is always empty (print_i64 panics in this back end). *)
From Coq Require Import List ZArith NArith String Bool FMapPositive.
From SCC Require Import Base.Sexp Lang.AxSyn Sem.AxSem Model.Backend Model.RV.
Import ListNotations.
Open Scope string_scope.
Local Open Scope Z_scope.

Definition HEAP_BASE : Z := 268435456.        (* 0x1000_0000 *)
Definition HEAP_SIZE : Z := 33554432.         (* 32 MiB as in driver-template.c *)
Definition CODE_BASE : Z := 1073741824.       (* 0x4000_0000 *)

Module PM := PositiveMap.
Definition key (a : Z) : positive := Z.to_pos (a + 1).

Record rstate := {
  regs : PM.t Z;                 (* absent = undefined; x0 is never stored *)
  heap : PM.t Z;                 (* absent = 0 *)
  hw : Z;                        (* highest heap address written *)
}.

Definition rget (s : rstate) (r : N) : option Z :=
  if N.eqb r 0 then Some 0 else PM.find (N.succ_pos r) (regs s).
Definition rset (s : rstate) (r : N) (v : option Z) : rstate :=
  if N.eqb r 0 then s else
  {| regs := match v with Some z => PM.add (N.succ_pos r) z (regs s) | None => PM.remove (N.succ_pos r) (regs s) end;
     heap := heap s; hw := hw s |}.

Inductive mres (X : Type) := MOk (x : X) | MFault (why : string).
Arguments MOk {X} x.
Arguments MFault {X} why.

Definition in_heap (a : Z) : bool := (HEAP_BASE <=? a) && (a + 8 <=? HEAP_BASE + HEAP_SIZE).
Definition aligned (a : Z) : bool := (a mod 8 =? 0).

Definition mload (s : rstate) (a : Z) : mres Z :=
  if negb (aligned a) then MFault "unaligned-access"
  else if in_heap a then MOk (match PM.find (key a) (heap s) with Some z => z | None => 0 end)
  else MFault "out-of-bounds-load".
Definition mstore (s : rstate) (a : Z) (v : option Z) : mres rstate :=
  if negb (aligned a) then MFault "unaligned-access"
  else if in_heap a then
    match v with
    | Some z => MOk {| regs := regs s; heap := PM.add (key a) z (heap s); hw := Z.max (hw s) a |}
    | None => MFault "undef-stored-to-heap"
    end
  else MFault "out-of-bounds-store".

Definition fits12 (i : Z) : bool := (-2048 <=? i) && (i <=? 2047).
Definition fits32 (i : Z) : bool := (-2147483648 <=? i) && (i <=? 2147483647).

(* program image *)
Definition isize (c : rcode) : Z :=
  match c with
  | LAB _ => 0
  | LA _ _ => 8
  | LI _ i => if fits12 i then 4 else if fits32 i then 8 else 32
  | _ => 4
  end.
Record image := {
  code : PM.t rcode;            (* index -> instruction, indices from 1 *)
  addr_of : PM.t Z;             (* index -> byte address *)
  index_at : PM.t positive;     (* byte address key -> index *)
  labels : list (string * positive);
  len : positive;
}.
Fixpoint build (cs : list rcode) (i : positive) (a : Z) (im : image) : image :=
  match cs with
  | [] => {| code := code im; addr_of := addr_of im; index_at := index_at im; labels := labels im; len := i |}
  | c :: r =>
      let im' := {| code := PM.add i c (code im);
                    addr_of := PM.add i a (addr_of im);
                    index_at := if isize c =? 0 then index_at im else PM.add (key a) i (index_at im);
                    labels := match c with LAB l => (l, i) :: labels im | _ => labels im end;
                    len := i |} in
      build r (Pos.succ i) (a + isize c) im'
  end.
Definition mk_image (cs : list rcode) : image :=
  build cs 1%positive CODE_BASE {| code := PM.empty _; addr_of := PM.empty _; index_at := PM.empty _; labels := []; len := 1%positive |}.
Fixpoint find_label (ls : list (string * positive)) (l : string) : option positive :=
  match ls with
  | [] => None
  | (l', i) :: r => if String.eqb l l' then Some i else find_label r l
  end.
(* the address of a label is the address of the next instruction of non-zero size *)
Definition label_addr (im : image) (l : string) : option Z :=
  match find_label (labels im) l with Some i => PM.find i (addr_of im) | None => None end.
Definition duplicate_labels (im : image) : list string :=
  (fix go (ls : list (string * positive)) : list string :=
     match ls with
     | [] => []
     | (l, _) :: r => if existsb (fun p => String.eqb (fst p) l) r then l :: go r else go r
     end) (labels im).

Inductive step_res :=
| Next (s : rstate)
| Jump (s : rstate) (i : positive)
| Fault (why : string) (s : rstate)
| Undefd (why : string) (s : rstate).

Definition need (v : option Z) (why : string) (k : Z -> step_res) (s : rstate) : step_res :=
  match v with Some z => k z | None => Fault why s end.
Definition withm {X} (m : mres X) (s : rstate) (k : X -> step_res) : step_res :=
  match m with MOk x => k x | MFault w => Fault w s end.

Definition ea (s : rstate) (b : N) (i : Z) (k : Z -> step_res) : step_res :=
  if fits12 i then need (rget s b) "undef-address" (fun bz => k (bz + i)) s else Fault "imm-range" s.

Definition arith3 (f : Z -> Z -> Z) (s : rstate) (x y z : N) : step_res :=
  need (rget s y) "undef-operand" (fun a => need (rget s z) "undef-operand" (fun b =>
    Next (rset s x (Some (wrap (f a b))))) s) s.

Definition divrem (q : bool) (s : rstate) (x y z : N) : step_res :=
  need (rget s y) "undef-operand" (fun a => need (rget s z) "undef-operand" (fun b =>
    if b =? 0 then Undefd "div0" s
    else if (a =? min_int) && (b =? -1) then Undefd "overflow" s
    else Next (rset s x (Some (if q then Z.quot a b else Z.rem a b)))) s) s.

Definition goto_label (im : image) (s : rstate) (l : string) : step_res :=
  match find_label (labels im) l with Some i => Jump s i | None => Fault ("undefined-label " ++ l) s end.
Definition goto_addr (im : image) (s : rstate) (a : Z) : step_res :=
  match PM.find (key a) (index_at im) with Some i => Jump s i | None => Fault "bad-jump-target" s end.
Definition branch (im : image) (s : rstate) (sort : ifsort) (x y : N) (l : string) : step_res :=
  need (rget s x) "undef-operand" (fun a => need (rget s y) "undef-operand" (fun b =>
    if eval_cmp sort a b then goto_label im s l else Next s) s) s.

(* `pc` is the byte address of the instruction being executed *)
Definition step (im : image) (pc : Z) (c : rcode) (s : rstate) : step_res :=
  match c with
  | ADD x y z => arith3 Z.add s x y z
  | SUB x y z => arith3 Z.sub s x y z
  | MUL x y z => arith3 Z.mul s x y z
  | DIV x y z => divrem true s x y z
  | REM x y z => divrem false s x y z
  | ADDI x y i => if fits12 i then need (rget s y) "undef-operand" (fun a => Next (rset s x (Some (wrap (a + i))))) s
                  else Fault "imm-range" s
  | JAL x l => goto_label im (rset s x (Some (pc + 4))) l
  | JALR x y i => ea s y i (fun t => goto_addr im (rset s x (Some (pc + 4))) (t - t mod 2))
  | LA x l => match label_addr im l with Some t => Next (rset s x (Some t)) | None => Fault ("undefined-label " ++ l) s end
  | LI x i => Next (rset s x (Some i))
  | MV x y => Next (rset s x (rget s y))
  | LW x y i => ea s y i (fun ad => withm (mload s ad) s (fun v => Next (rset s x (Some v))))
  | SW x y i => ea s y i (fun ad => withm (mstore s ad (rget s x)) s Next)
  | BEQ x y l => branch im s Eq x y l
  | BNE x y l => branch im s Ne x y l
  | BLT x y l => branch im s Lt x y l
  | BLE x y l => branch im s Le x y l
  | BGT x y l => branch im s Gt x y l
  | BGE x y l => branch im s Ge x y l
  | LAB _ => Next s
  end.

Definition arg_reg (i : nat) : N := (RESERVED + 2 * N.of_nat i + 1)%N.
Definition init_state (args : list Z) : rstate :=
  let r1 := PM.add (N.succ_pos HEAP) HEAP_BASE
              (PM.add (N.succ_pos FREE) (HEAP_BASE + field_offset Fst FIELDS_PER_BLOCK) (PM.empty Z)) in
  let r2 := fold_left (fun m (ia : nat * Z) => PM.add (N.succ_pos (arg_reg (fst ia))) (snd ia) m)
                      (combine (seq 0 (List.length args)) args) r1 in
  {| regs := r2; heap := PM.empty Z; hw := HEAP_BASE - 8 |}.

Definition final_check (s : rstate) : outcome :=
  match rget s RETURN1 with Some v => OExit v | None => OStuck "undef-result" end.

(* two-level fuel (outer * inner steps) so that no huge unary number is ever built *)
Inductive chunk_res := Finished (o : obs) (s : rstate) | More (pc : positive) (s : rstate).
Fixpoint run_chunk (fuel : nat) (im : image) (stop : positive) (pc : positive) (s : rstate) : chunk_res :=
  match fuel with
  | O => More pc s
  | S f =>
      if Pos.eqb pc stop then Finished ([], final_check s) s else
      match PM.find pc (code im), PM.find pc (addr_of im) with
      | Some c, Some a =>
          match step im a c s with
          | Next s' => run_chunk f im stop (Pos.succ pc) s'
          | Jump s' i => run_chunk f im stop i s'
          | Fault w s' => Finished ([], OStuck w) s'
          | Undefd w s' => Finished ([], OUndef w) s'
          end
      | _, _ => Finished ([], OStuck "fell-off-the-end") s
      end
  end.
Fixpoint run (outer inner : nat) (im : image) (stop : positive) (pc : positive) (s : rstate) : obs * rstate :=
  match outer with
  | O => (([], OOutOfFuel), s)
  | S o =>
      match run_chunk inner im stop pc s with
      | Finished ob s' => (ob, s')
      | More pc' s' => run o inner im stop pc' s'
      end
  end.

(* `cs` is the instruction list of the AssemblyProg (without comments); the `cleanup` label is
   appended as into_rv64_routine does *)
Definition run_rv (outer inner : nat) (cs : list rcode) (args : list Z) : obs * rstate :=
  let im := mk_image (cs ++ [LAB "cleanup"]) in
  let stuck (w : string) : obs * rstate := ((([] : prints), OStuck w), init_state args) in
  match cs with
  | LAB _ :: _ =>
      match duplicate_labels im with
      | l :: _ => stuck ("duplicate-label " ++ l)
      | [] =>
          match find_label (labels im) "cleanup" with
          | None => stuck "no-cleanup"
          | Some stop =>
              if Nat.ltb 14 (List.length args) then stuck "too-many-arguments"
              else run outer inner im stop 1%positive (init_state args)
          end
      end
  | _ => stuck "no-entry-label"
  end.

Definition heap_high_water (s : rstate) : Z := hw s.
