From Coq Require Import Extraction ExtrOcamlBasic ExtrOcamlString.
From SCC Require Import Model.RunAll.
Extraction Language OCaml.
Separate Extraction dispatch.
