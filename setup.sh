#!/bin/sh
# Build the framework from files on disk only (offline).
set -e
cd "$(dirname "$0")"
export CARGO_NET_OFFLINE=true
mkdir -p .cache evidence replays
(cd harness && cargo build --offline 2>&1 | tail -3)
.cache/harness-target/debug/harness gen-constants > coq/Generated/Constants.v.new
if ! cmp -s coq/Generated/Constants.v.new coq/Generated/Constants.v; then mv coq/Generated/Constants.v.new coq/Generated/Constants.v; else rm coq/Generated/Constants.v.new; fi
(cd coq && coq_makefile -f _CoqProject -o Makefile >/dev/null 2>&1 && timeout 3000 make -j16 2>&1 | tail -5)
(cd ocaml && ./build.sh)
# the scc binaries that the CLI-level steps (C16 in-place mode, C18 robustness) run; the checks rebuild them
# from the current tree on every run (cargo is a no-op when nothing changed)
REPO="${VERIF_REPO:-/repo}"
cargo build --offline -q --manifest-path "$REPO/Cargo.toml" --target-dir .cache/scc-target 2>&1 | tail -3
cargo build --offline -q --release --manifest-path "$REPO/Cargo.toml" --target-dir .cache/scc-target 2>&1 | tail -3
echo setup done
